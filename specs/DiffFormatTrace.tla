--------------------------- MODULE DiffFormatTrace ---------------------------
(***************************************************************************)
(* Record validation for C14.  One record = one diff (Left, Right, context *)
(* n, with or without AddContext(n).Unify()) rendered by the real          *)
(* formatters, lexed by the driver, parsed back by the real readers:       *)
(*  (1) each rendering, interpreted by DiffFormat's published rules and    *)
(*      applied to Left, yields Right;                                     *)
(*  (2) Read / ReadUnified / ReadGitPatch return the same changes at the   *)
(*      same ranges (chunk for chunk; one chunk per command for normal;    *)
(*      Replace may come back split);                                      *)
(*  (3) re-formatting the parsed patch reproduces the bytes;               *)
(*  (4) file names and timestamps survive.                                 *)
(* With Conv = {} this is the property; with Conv = {"F5","F6"} it is the  *)
(* as-is model used to attribute the known findings.                       *)
(***************************************************************************)
EXTENDS DiffFormat, TraceBase

TInit == TLCSet(1, 0) /\ l = 1

TStep ==
  /\ l <= N
  /\ l' = l + 1
  /\ LET e == Trace[l]
     IN  /\ e.panic = ""
         /\ \A i \in DOMAIN e.chunks : ChunkOK(e.lhs, e.rhs, e.chunks[i])      \* (C13; precondition here)
         \* (1)
         /\ UnifiedApplies(e.uni.hunks, e.lhs, e.rhs)
         /\ NormalApplies(e.nor.hunks, e.lhs, e.rhs)
         /\ ContextApplies(e.ctx.hunks, e.lhs, e.rhs)
         /\ e.uni.lexerr = "" /\ e.nor.lexerr = "" /\ e.ctx.lexerr = ""
         /\ Len(e.uni.hunks) = Len(e.chunks) /\ Len(e.ctx.hunks) = Len(e.chunks)
         \* (2)
         /\ e.uni.perr = "" /\ e.nor.perr = "" /\ e.git.perr = ""
         /\ e.uni.parsed = ExpectUnified(e.chunks)
         /\ e.git.parsed = ExpectUnified(e.chunks)
         /\ (e.chunks # <<>> => e.git.parsed2 = ExpectUnified(e.rchunks) /\ e.git.parsed3 = ExpectUnified(e.chunks))
         /\ e.nor.parsed = ExpectNormal(e.chunks)
         \* (3)
         /\ e.uni.same = ExpectSameBytes(e.chunks)
         /\ e.git.same = ExpectSameBytes(e.chunks)
         /\ e.nor.same = TRUE
         \* (4)
         /\ e.uni.fi = e.fi /\ e.git.fi = e.gfi

TSkip == l <= N /\ ~ENABLED TStep /\ Reject(l) /\ l' = l + 1
TNext == TStep \/ TSkip
TSpec == TInit /\ [][TNext]_<<l>>
=============================================================================
