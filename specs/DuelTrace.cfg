SPECIFICATION TSpec
INVARIANT Mark
POSTCONDITION Finished
CHECK_DEADLOCK FALSE
