SPECIFICATION Spec
CONSTANTS
  Betas <- BetasT
  Ds <- DsT
CHECK_DEADLOCK FALSE
