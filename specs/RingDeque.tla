----------------------------- MODULE RingDeque -----------------------------
(***************************************************************************)
(* Implementation-shaped specification of queue.Queue (C07): a growing     *)
(* ring buffer (vs, head, n), one action per public method, written as the *)
(* code is written (queue/queue.go).  It runs in lock-step with the        *)
(* abstract Deque; TLC checks that the ring refines the deque              *)
(* (RingRefines), and the exploration is emitted as operation paths that   *)
(* the Go harness replays against the real queue.                          *)
(*                                                                         *)
(* Deliberate abstraction: dead slots of the buffer hold Zero in the model *)
(* (the code leaves stale values there).  No observation of the code reads *)
(* a dead slot; the observation operators below use the code's own index   *)
(* arithmetic, so a wrong index would read Zero and break RingRefines.     *)
(***************************************************************************)
EXTENDS Deque, TLC, Json, FiniteSets

CONSTANTS MaxCap,     \* bound on the buffer capacity explored
          InitCaps    \* set of NewSize arguments used as initial states

VARIABLES vs,    \* the buffer, Len(vs) = len(q.vs) = cap
          head,  \* 0-based offset of the oldest element
          n,     \* number of live elements
          rres,  \* result of the last call as computed by the ring
          path   \* history: operations that led here (not part of the VIEW)

rvars == <<vs, head, n, rres, q, res, path>>

Cap == Len(vs)
Zeros(k) == [i \in 1..k |-> Zero]

\* slice.Rotate(vs, -k): the element at index k moves to index 0.
RotLeft(s, k) == [i \in 1..Len(s) |-> s[((i - 1 + k) % Len(s)) + 1]]

\* Capacities append() may choose when growing a full buffer of capacity c.
\* The Go runtime decides; the model allows the minimal and the doubling choice.
GrowCaps(c) == {x \in {c + 1, 2 * c} : x > c /\ x <= MaxCap}

\* The value given to Add/Push: the least positive integer not in the queue.
\* Distinct live values make loss, duplication and reordering visible.
Fresh == CHOOSE v \in 1..(Len(q) + 1) : \A i \in 1..Len(q) : q[i] # v

RInit ==
  /\ \E c \in InitCaps : vs = Zeros(c) /\ path = <<[op |-> "new", v |-> c]>>
  /\ head = 0 /\ n = 0 /\ rres = NoRes
  /\ DInit

Rotated == IF head > 0 THEN RotLeft(vs, head) ELSE vs

RAdd(v) ==
  /\ \/ /\ n < Cap
        /\ LET p0 == head + n
               pos == IF p0 >= Cap THEN p0 - Cap ELSE p0
           IN  vs' = [vs EXCEPT ![pos + 1] = v]
        /\ head' = head
     \/ /\ n >= Cap
        /\ \E nc \in GrowCaps(Cap) : vs' = Rotated \o <<v>> \o Zeros(nc - Cap - 1)
        /\ head' = 0
  /\ n' = n + 1 /\ rres' = NoRes
  /\ DAdd(v)
  /\ path' = Append(path, [op |-> "add", v |-> v])

RPush(v) ==
  /\ \/ /\ n < Cap
        /\ LET pos == IF head - 1 < 0 THEN Cap - 1 ELSE head - 1
           IN  vs' = [vs EXCEPT ![pos + 1] = v] /\ head' = pos
     \/ /\ n >= Cap
        /\ \E nc \in GrowCaps(Cap) :
             /\ vs' = [(Rotated \o Zeros(nc - Cap)) EXCEPT ![nc] = v]
             /\ head' = nc - 1
  /\ n' = n + 1 /\ rres' = NoRes
  /\ DPush(v)
  /\ path' = Append(path, [op |-> "push", v |-> v])

RPop ==
  /\ IF n = 0
       THEN vs' = vs /\ head' = head /\ n' = n /\ rres' = [v |-> Zero, ok |-> FALSE]
       ELSE /\ rres' = [v |-> vs[head + 1], ok |-> TRUE]
            /\ vs' = [vs EXCEPT ![head + 1] = Zero]
            /\ n' = n - 1
            /\ head' = IF n - 1 = 0 THEN 0 ELSE (head + 1) % Cap
  /\ DPop
  /\ path' = Append(path, [op |-> "pop", v |-> 0])

RPopLast ==
  /\ IF n = 0
       THEN vs' = vs /\ head' = head /\ n' = n /\ rres' = [v |-> Zero, ok |-> FALSE]
       ELSE LET p0 == head + n - 1
                pos == IF p0 >= Cap THEN p0 - Cap ELSE p0
            IN  /\ rres' = [v |-> vs[pos + 1], ok |-> TRUE]
                /\ vs' = [vs EXCEPT ![pos + 1] = Zero]
                /\ n' = n - 1
                /\ head' = IF n - 1 = 0 THEN 0 ELSE head
  /\ DPopLast
  /\ path' = Append(path, [op |-> "poplast", v |-> 0])

RClear ==
  /\ vs' = <<>> /\ head' = 0 /\ n' = 0 /\ rres' = NoRes
  /\ DClear
  /\ path' = Append(path, [op |-> "clear", v |-> 0])

RNext == RAdd(Fresh) \/ RPush(Fresh) \/ RPop \/ RPopLast \/ RClear

RSpec == RInit /\ [][RNext]_rvars

(* Observations computed the way the code computes them. *)
RFront == IF n = 0 THEN Zero ELSE vs[head + 1]
RPeek(k) ==
  LET m == IF k < 0 THEN k + n ELSE k
  IN  IF m < 0 \/ m >= n THEN [v |-> Zero, ok |-> FALSE]
      ELSE [v |-> vs[((head + m) % Cap) + 1], ok |-> TRUE]
RSlice == [i \in 1..n |-> vs[((head + i - 1) % Cap) + 1]]

RingTypeOK ==
  /\ n \in 0..Cap
  /\ head \in 0..(IF Cap = 0 THEN 0 ELSE Cap - 1)
  /\ (n = 0 => head = 0)

\* Refinement, checked in every reachable state: the ring's contents, its
\* call result and every observation equal those of the abstract deque.
RingRefines ==
  /\ RSlice = q
  /\ rres = res
  /\ n = Len(q)
  /\ RFront = FrontOf(q)
  /\ \A k \in (0 - n - 2)..(n + 1) : RPeek(k) = PeekAt(q, k)

\* The refinement as a temporal property: every ring step is a deque step
\* (or stutters).  [][...]_<<q,res>> costs nothing extra in TLC.
DNextAny == \/ \E v \in 1..(MaxCap + 1) : DAdd(v) \/ DPush(v)
            \/ DPop \/ DPopLast \/ DClear
RefinesDeque == [][DNextAny]_<<q, res>>

\* Coverage-oriented view: one representative per (cap, head, n).
ShapeView == <<Cap, head, n>>
FullView  == <<vs, head, n, rres, q, res>>

\* Test generation: one line per generated transition, the path reaching it.
Emit == PrintT(ToJson(path'))
=============================================================================
