-------------------------------- MODULE StrMC --------------------------------
(***************************************************************************)
(* Input spaces for mstr (C20), defined by the specification: every string *)
(* of up to MaxUnits units drawn from 1-, 2-, 3- and 4-byte runes and      *)
(* stray continuation / lead / invalid bytes (for Trunc, at every cut      *)
(* point), and the universe of CompareNatural.  The invariant checks the   *)
(* UTF-8 validity predicate against the construction: a string built only  *)
(* from whole runes is valid, one containing a stray byte is not.          *)
(***************************************************************************)
EXTENDS Bytes, Json
CONSTANT MaxUnits
VARIABLE x
Runes == {<<97>>, <<195, 169>>, <<226, 130, 172>>, <<240, 159, 152, 128>>}
Strays == {<<128>>, <<195>>, <<255>>}
RECURSIVE Cat(_, _)
Cat(U, n) == IF n = 0 THEN {[s |-> <<>>, ok |-> TRUE]}
             ELSE Cat(U, n - 1) \cup {[s |-> p.s \o u, ok |-> p.ok /\ u \in Runes] : p \in {q \in Cat(U, n - 1) : TRUE}, u \in U}
TruncSpace == Cat(Runes \cup Strays, MaxUnits)
Init == x \in TruncSpace
Next == UNCHANGED x
Spec == Init /\ [][Next]_x
\* whole runes only => valid; (a stray byte may still combine into a valid rune, e.g. C3 then 80)
ValidityOK == x.ok => ValidUTF8(x.s)
EmitInput == PrintT(ToJson([truncs |-> x.s]))
=============================================================================
