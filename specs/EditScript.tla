----------------------------- MODULE EditScript -----------------------------
(***************************************************************************)
(* Specification of slice.EditScript / LCS (C11, C12): declarative         *)
(* definitions (what a valid, minimal, canonical edit script is; what a    *)
(* longest common subsequence is) and a transcription of the algorithms of *)
(* slice/edit.go (LCSFunc's double-buffered table with its tie-breaking,   *)
(* editScriptFunc's greedy re-matching) for model checking.                *)
(* An edit is <<op, X, Y>> with op one of "=", "-", "+", "!".              *)
(***************************************************************************)
EXTENDS Integers, Sequences, FiniteSets, TLC

Max2(a, b) == IF a > b THEN a ELSE b

(* ---- longest common subsequence length: row-by-row dynamic programme --- *)
RECURSIVE LcsCur(_, _, _, _, _)
LcsCur(prev, a, x, i, acc) ==      \* acc = cur[0..i-1] (as a sequence, index+1)
  IF i > Len(a) THEN acc
  ELSE LcsCur(prev, a, x, i + 1,
              Append(acc, IF a[i] = x THEN prev[i] + 1 ELSE Max2(prev[i + 1], acc[i])))
RECURSIVE LcsRows(_, _, _, _)
LcsRows(prev, a, b, j) == IF j > Len(b) THEN prev ELSE LcsRows(LcsCur(prev, a, b[j], 1, <<0>>), a, b, j + 1)
LCSLen(a, b) == LcsRows([i \in 1..(Len(a) + 1) |-> 0], a, b, 1)[Len(a) + 1]

RECURSIVE IsSubseqGo(_, _, _, _)
IsSubseqGo(s, t, i, j) ==          \* s[i..] is a subsequence of t[j..]
  IF i > Len(s) THEN TRUE
  ELSE IF j > Len(t) THEN FALSE
  ELSE IF s[i] = t[j] THEN IsSubseqGo(s, t, i + 1, j + 1) ELSE IsSubseqGo(s, t, i, j + 1)
IsSubseq(s, t) == IsSubseqGo(s, t, 1, 1)

(* ---- edit scripts ------------------------------------------------------ *)
Span(q, lo, n) == SubSeq(q, lo + 1, lo + n)

RECURSIVE ValidFrom(_, _, _, _, _, _)
ValidFrom(es, k, lhs, rhs, lp, rp) ==
  IF k > Len(es) THEN lp = Len(lhs) /\ rp = Len(rhs)
  ELSE LET e == es[k] op == e[1] X == e[2] Y == e[3]
       IN  CASE op = "=" -> /\ X # <<>> /\ Y = <<>>
                            /\ lp + Len(X) <= Len(lhs) /\ rp + Len(X) <= Len(rhs)
                            /\ X = Span(lhs, lp, Len(X)) /\ X = Span(rhs, rp, Len(X))
                            /\ ValidFrom(es, k + 1, lhs, rhs, lp + Len(X), rp + Len(X))
             [] op = "-" -> /\ X # <<>> /\ Y = <<>> /\ lp + Len(X) <= Len(lhs) /\ X = Span(lhs, lp, Len(X))
                            /\ ValidFrom(es, k + 1, lhs, rhs, lp + Len(X), rp)
             [] op = "+" -> /\ Y # <<>> /\ X = <<>> /\ rp + Len(Y) <= Len(rhs) /\ Y = Span(rhs, rp, Len(Y))
                            /\ ValidFrom(es, k + 1, lhs, rhs, lp, rp + Len(Y))
             [] op = "!" -> /\ X # <<>> /\ Y # <<>>
                            /\ lp + Len(X) <= Len(lhs) /\ rp + Len(Y) <= Len(rhs)
                            /\ X = Span(lhs, lp, Len(X)) /\ Y = Span(rhs, rp, Len(Y))
                            /\ ValidFrom(es, k + 1, lhs, rhs, lp + Len(X), rp + Len(Y))
             [] OTHER -> FALSE
Valid(es, lhs, rhs) == ValidFrom(es, 1, lhs, rhs, 0, 0)

\* executing the script: Emit and Drop consume lhs, Emit/Copy/Replace produce
RECURSIVE Produced(_, _)
Produced(es, k) ==
  IF k > Len(es) THEN <<>>
  ELSE (IF es[k][1] = "=" THEN es[k][2] ELSE IF es[k][1] \in {"+", "!"} THEN es[k][3] ELSE <<>>) \o Produced(es, k + 1)
RECURSIVE Consumed(_, _)
Consumed(es, k) ==
  IF k > Len(es) THEN <<>>
  ELSE (IF es[k][1] \in {"=", "-", "!"} THEN es[k][2] ELSE <<>>) \o Consumed(es, k + 1)
RECURSIVE Kept(_, _)
Kept(es, k) == IF k > Len(es) THEN 0 ELSE (IF es[k][1] = "=" THEN Len(es[k][2]) ELSE 0) + Kept(es, k + 1)

Canonical(es) ==
  /\ \A k \in DOMAIN es : es[k][2] # <<>> \/ es[k][3] # <<>>
  /\ \A k \in 1..(Len(es) - 1) :
       /\ es[k][1] # es[k + 1][1]
       /\ ~(es[k][1] = "-" /\ es[k + 1][1] = "+")
       /\ ~(es[k][1] = "+" /\ es[k + 1][1] = "-")

\* The empty script stands for "nothing to do" and is returned exactly when
\* lhs = rhs; every other script must execute to completion.
ScriptOK(es, lhs, rhs) ==
  IF es = <<>> THEN lhs = rhs
  ELSE /\ lhs # rhs
       /\ Valid(es, lhs, rhs)
       /\ Produced(es, 1) = rhs /\ Consumed(es, 1) = lhs
       /\ Kept(es, 1) = LCSLen(lhs, rhs)             \* minimal: no script keeps more
       /\ Canonical(es)

\* ScriptOK without the minimality clause
ScriptValid(es, lhs, rhs) ==
  IF es = <<>> THEN lhs = rhs
  ELSE lhs # rhs /\ Valid(es, lhs, rhs) /\ Produced(es, 1) = rhs /\ Consumed(es, 1) = lhs /\ Canonical(es)

(* ---- elements that are equal under == but distinguishable ---------------- *)
\* For float64 elements +0 and -0 are == yet different values.  The harness
\* encodes -0 as NegZero and +0 as 0; Cl maps an element to its ==-class.
\* "X is the very span of lhs" then means the codes of lhs (not those of the
\* ==-equal elements of rhs); what the script produces equals rhs up to ==.
NegZero == 1000
Cl(x) == IF x = NegZero THEN 0 ELSE x
ClSeq(q) == [i \in DOMAIN q |-> Cl(q[i])]

RECURSIVE ValidFromZ(_, _, _, _, _, _)
ValidFromZ(es, k, lhs, rhs, lp, rp) ==
  IF k > Len(es) THEN lp = Len(lhs) /\ rp = Len(rhs)
  ELSE LET e == es[k] op == e[1] X == e[2] Y == e[3]
       IN  CASE op = "=" -> /\ X # <<>> /\ Y = <<>>
                            /\ lp + Len(X) <= Len(lhs) /\ rp + Len(X) <= Len(rhs)
                            /\ X = Span(lhs, lp, Len(X))                       \* lhs's own elements
                            /\ ClSeq(X) = ClSeq(Span(rhs, rp, Len(X)))         \* == to rhs's
                            /\ ValidFromZ(es, k + 1, lhs, rhs, lp + Len(X), rp + Len(X))
             [] op = "-" -> /\ X # <<>> /\ Y = <<>> /\ lp + Len(X) <= Len(lhs) /\ X = Span(lhs, lp, Len(X))
                            /\ ValidFromZ(es, k + 1, lhs, rhs, lp + Len(X), rp)
             [] op = "+" -> /\ Y # <<>> /\ X = <<>> /\ rp + Len(Y) <= Len(rhs) /\ Y = Span(rhs, rp, Len(Y))
                            /\ ValidFromZ(es, k + 1, lhs, rhs, lp, rp + Len(Y))
             [] op = "!" -> /\ X # <<>> /\ Y # <<>>
                            /\ lp + Len(X) <= Len(lhs) /\ rp + Len(Y) <= Len(rhs)
                            /\ X = Span(lhs, lp, Len(X)) /\ Y = Span(rhs, rp, Len(Y))
                            /\ ValidFromZ(es, k + 1, lhs, rhs, lp + Len(X), rp + Len(Y))
             [] OTHER -> FALSE

ScriptOKZ(es, lhs, rhs) ==
  IF es = <<>> THEN ClSeq(lhs) = ClSeq(rhs)
  ELSE /\ ClSeq(lhs) # ClSeq(rhs)
       /\ ValidFromZ(es, 1, lhs, rhs, 0, 0)
       /\ ClSeq(Produced(es, 1)) = ClSeq(rhs) /\ Consumed(es, 1) = lhs
       /\ Kept(es, 1) = LCSLen(ClSeq(lhs), ClSeq(rhs))
       /\ Canonical(es)

LcsOK(out, a, b) == IsSubseq(out, a) /\ IsSubseq(out, b) /\ Len(out) = LCSLen(a, b)

(* ---- transcription of slice/edit.go ------------------------------------ *)
\* LCSFunc: cells are [n, path] (path = indices into as); ties prefer c[i-1]
Zero == [n |-> 0, path |-> <<>>]
RECURSIVE ACur(_, _, _, _, _)
ACur(p, as, x, i, acc) ==          \* p, acc: sequences indexed by i+1
  IF i > Len(as) THEN acc
  ELSE ACur(p, as, x, i + 1,
            Append(acc, IF as[i] = x THEN [n |-> p[i].n + 1, path |-> Append(p[i].path, i)]
                        ELSE IF acc[i].n >= p[i + 1].n THEN acc[i] ELSE p[i + 1]))
RECURSIVE ARows(_, _, _, _)
ARows(p, as, bs, j) == IF j > Len(bs) THEN p ELSE ARows(ACur(p, as, bs[j], 1, <<Zero>>), as, bs, j + 1)
AlgLCS(a0, b0) ==
  IF a0 = <<>> \/ b0 = <<>> THEN <<>>
  ELSE LET as == IF Len(b0) < Len(a0) THEN b0 ELSE a0
           bs == IF Len(b0) < Len(a0) THEN a0 ELSE b0
           cell == ARows([i \in 1..(Len(as) + 1) |-> Zero], as, bs, 1)[Len(as) + 1]
       IN  [k \in 1..cell.n |-> as[cell.path[k]]]

\* editScriptFunc: "OOB" models an index-out-of-range panic
RECURSIVE Find(_, _, _)
Find(q, from, x) == IF from >= Len(q) THEN 0 - 1 ELSE IF q[from + 1] = x THEN from ELSE Find(q, from + 1, x)
RECURSIVE RunLen(_, _, _, _, _, _, _)
RunLen(lhs, rhs, lcs, i, lpos, rpos, m) ==
  IF i + m < Len(lcs) /\ lpos + m < Len(lhs) /\ rpos + m < Len(rhs) /\ lhs[lpos + m + 1] = rhs[rpos + m + 1]
    THEN RunLen(lhs, rhs, lcs, i, lpos, rpos, m + 1) ELSE m
Gap(lhs, rhs, lpos, lend, rpos, rend) ==
  (IF lend > lpos /\ rend > rpos THEN <<<<"!", Span(lhs, lpos, lend - lpos), Span(rhs, rpos, rend - rpos)>>>>
   ELSE IF lend > lpos THEN <<<<"-", Span(lhs, lpos, lend - lpos), <<>>>>>>
   ELSE IF rend > rpos THEN <<<<"+", <<>>, Span(rhs, rpos, rend - rpos)>>>> ELSE <<>>)
RECURSIVE AlgLoop(_, _, _, _, _, _, _)
AlgLoop(lhs, rhs, lcs, i, lpos, rpos, out) ==
  IF i >= Len(lcs) THEN out \o Gap(lhs, rhs, lpos, Len(lhs), rpos, Len(rhs))
  ELSE LET lend == Find(lhs, lpos, lcs[i + 1])
           rend == Find(rhs, rpos, lcs[i + 1])
       IN  IF lend < 0 \/ rend < 0 THEN <<<<"OOB", <<>>, <<>>>>>>
           ELSE LET m == RunLen(lhs, rhs, lcs, i, lend, rend, 1)
                IN  AlgLoop(lhs, rhs, lcs, i + m, lend + m, rend + m,
                            out \o Gap(lhs, rhs, lpos, lend, rpos, rend) \o <<<<"=", Span(lhs, lend, m), <<>>>>>>)
AlgEditScript(lhs, rhs) ==
  LET out == AlgLoop(lhs, rhs, AlgLCS(lhs, rhs), 0, 0, 0, <<>>)
  IN  IF Len(out) = 1 /\ out[1][1] = "=" THEN <<>> ELSE out

\* all sequences over Sym of length <= n
RECURSIVE SeqsUpTo(_, _)
SeqsUpTo(Sym, n) == IF n = 0 THEN {<<>>} ELSE SeqsUpTo(Sym, n - 1) \cup {Append(s, x) : s \in {t \in SeqsUpTo(Sym, n - 1) : Len(t) = n - 1}, x \in Sym}
=============================================================================
