----------------------------- MODULE ExtrasTrace -----------------------------
EXTENDS Extras, TraceBase
TInit == TLCSet(1, 0) /\ l = 1
TStep ==
  /\ l <= N
  /\ l' = l + 1
  /\ LET e == Trace[l]
     IN  /\ e.panic = ""
         /\ CASE e.f = "fromless" -> FromLessOK(e.a, e.b, e.r)
              [] e.f = "toless" -> ToLessOK(e.a, e.b, e.rb)
              [] e.f = "reversed" -> ReversedOK(e.a, e.b, e.r)
              [] e.f = "bool" -> BoolOK(e.ba, e.bb, e.r)
              [] e.f = "time" -> TimeOK(e.a, e.b, e.r)
              [] e.f = "just" -> JustOK(e.a, e.m)
              [] e.f = "absent" -> AbsentOK(e.m)
              [] e.f = "or" -> OrOK(e.m0, e.a, e.m)
              [] e.f = "ptr" -> PtrOK(e.m0, e.p)
              [] e.f = "at" -> AtOK(e.p, e.r)
              [] e.f = "atdefault" -> AtDefaultOK(e.p, e.a, e.r)
              [] e.f = "atmaybe" -> AtMaybeOK(e.p, e.m)
              [] e.f = "cond" -> CondOK(e.ba, e.a, e.b, e.r)
              [] e.f = "check" -> CheckOK(e.a, e.ba, e.m)
              [] e.f = "split" -> SplitOK(e.s, e.a, e.ss)
              [] e.f = "lines" -> LinesOK(e.s, e.ss)
              [] e.f = "dedup" -> DedupOK(e.s, e.out)
              [] e.f = "reverse" -> ReverseOK(e.s, e.out)
              [] e.f = "zero" -> ZeroOK(e.s, e.out)
              [] e.f = "select" -> SelectOK(e.s, SeqSet(e.keep), e.a, e.out)
              [] e.f = "mapkeys" -> MapKeysOK(e.s, e.out)
              [] e.f = "matchingkeys" -> MatchingKeysOK(e.s, e.vals, SeqSet(e.keep), e.out)
              [] OTHER -> FALSE
TSkip == l <= N /\ ~ENABLED TStep /\ Reject(l) /\ l' = l + 1
TNext == TStep \/ TSkip
TSpec == TInit /\ [][TNext]_<<l>>
=============================================================================
