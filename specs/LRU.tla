-------------------------------- MODULE LRU --------------------------------
(***************************************************************************)
(* Abstract specification of cache.Cache with the LRU store (C08, C09).    *)
(* A cache state is                                                        *)
(*   [order |-> sequence of the present keys, least recently used first,   *)
(*    val   |-> function key -> value, a value being <<tag, size>>,        *)
(*    limit |-> capacity, unit |-> TRUE iff every entry counts 1]          *)
(* Every operator returns [s |-> new state, res |-> result, ev |-> the     *)
(* eviction-callback sequence of this call].  Put and a successful Get     *)
(* count as uses; Has does not.                                            *)
(***************************************************************************)
EXTENDS Integers, Sequences, FiniteSets, TLC

ZeroV == <<0, 0>>
SizeOf(s, v) == IF s.unit THEN 1 ELSE v[2]
RECURSIVE SumSizes(_, _)
SumSizes(s, ks) == IF ks = <<>> THEN 0 ELSE SizeOf(s, s.val[ks[1]]) + SumSizes(s, Tail(ks))
CSize(s) == IF s.unit THEN Len(s.order) ELSE SumSizes(s, s.order)
CLen(s) == Len(s.order)
Present(s, k) == \E i \in DOMAIN s.order : s.order[i] = k
Without(q, k) == SelectSeq(q, LAMBDA x : x # k)
NewCache(limit, unit) == [order |-> <<>>, val |-> <<>>, limit |-> limit, unit |-> unit]

\* evict from the head of the order until `need` more units fit
RECURSIVE EvictFor(_, _, _)
EvictFor(s, need, ev) ==
  IF CSize(s) + need > s.limit /\ s.order # <<>>
    THEN LET k == Head(s.order)
         IN  EvictFor([s EXCEPT !.order = Tail(s.order)], need, Append(ev, <<k, s.val[k][1], s.val[k][2]>>))
    ELSE [s |-> s, ev |-> ev]

LPut(s, k, v) ==
  IF SizeOf(s, v) > s.limit THEN [s |-> s, res |-> FALSE, ev |-> <<>>]
  ELSE LET ev0 == IF Present(s, k) THEN <<<<k, s.val[k][1], s.val[k][2]>>>> ELSE <<>>
           s0 == [s EXCEPT !.order = Without(s.order, k)]
           r == EvictFor(s0, SizeOf(s, v), ev0)
           s1 == [r.s EXCEPT !.order = Append(r.s.order, k), !.val = (k :> v) @@ r.s.val]
       IN  [s |-> s1, res |-> TRUE, ev |-> r.ev]

LGet(s, k) ==
  IF Present(s, k)
    THEN [s |-> [s EXCEPT !.order = Append(Without(s.order, k), k)], res |-> <<s.val[k][1], s.val[k][2], 1>>, ev |-> <<>>]
    ELSE [s |-> s, res |-> <<0, 0, 0>>, ev |-> <<>>]

LHas(s, k) == [s |-> s, res |-> Present(s, k), ev |-> <<>>]

LRemove(s, k) ==
  IF Present(s, k)
    THEN [s |-> [s EXCEPT !.order = Without(s.order, k)], res |-> TRUE, ev |-> <<<<k, s.val[k][1], s.val[k][2]>>>>]
    ELSE [s |-> s, res |-> FALSE, ev |-> <<>>]

\* n consecutive Puts of fresh keys k .. k+n-1 with unit-size values <<key, 1>> (bulk form used for
\* very large caches); defined here only when they all fit without eviction
LFill(s, k, n) ==
  IF CSize(s) + n <= s.limit /\ \A i \in DOMAIN s.order : s.order[i] < k \/ s.order[i] >= k + n
    THEN [s |-> [s EXCEPT !.order = s.order \o [i \in 1..n |-> k + i - 1],
                          !.val = [x \in k..(k + n - 1) |-> <<x, 1>>] @@ s.val],
          res |-> TRUE, ev |-> <<>>]
    ELSE [s |-> s, res |-> FALSE, ev |-> <<"unsupported">>]

\* Clear reports every entry exactly once; the order is not specified.
ClearEvs(s) == {<<s.order[i], s.val[s.order[i]][1], s.val[s.order[i]][2]>> : i \in DOMAIN s.order}
LClear(s) == [s |-> [s EXCEPT !.order = <<>>], res |-> TRUE, ev |-> <<>>]

Accounting(s) == CSize(s) <= s.limit /\ Cardinality({s.order[i] : i \in DOMAIN s.order}) = Len(s.order)
=============================================================================
