------------------------------- MODULE ListMC -------------------------------
(***************************************************************************)
(* Exhaustive exploration of ListSeq with two cursors over short lists:    *)
(* structural invariants, "a stale cursor never acts", and one operation   *)
(* path per generated transition for replay on the real mlink.List.        *)
(* Also the pointer-level model of list.go (link fields, sentinel,         *)
(* self-linked tombstones) in lock-step: LinkRefines.                      *)
(***************************************************************************)
EXTENDS ListSeq, Json

CONSTANTS MaxLen, Vals, Curs, Known      \* Known: as-is switches ("F7")

VARIABLES s, link, last, path
\* link: entry id -> successor id, 0 = nil, self = tombstone; entry 0 is the sentinel
vars == <<s, link, last, path>>

Op(name, c, n, v, vs) == [op |-> name, c |-> c, n |-> n, v |-> v, vs |-> vs]

Init == s = EmptyList /\ link = (0 :> 0) /\ last = Ok(EmptyList, 0) /\ path = <<Op("new", 0, 0, 0, <<>>)>>

(* ---- pointer level (list.go) ------------------------------------------- *)
RECURSIVE Chain(_, _)          \* ids reachable from e through link, until nil
Chain(lk, e) == IF lk[e] = 0 THEN <<>> ELSE <<lk[e]>> \o Chain(lk, lk[e])
RECURSIVE Invalidate(_, _)     \* entry.invalidate(): self-link e and everything after it
Invalidate(lk, e) == IF e = 0 THEN lk ELSE Invalidate([lk EXCEPT ![e] = e], lk[e])

\* effect of each action on the link map, given the cursor's pred entry p (valid)
LinkPush(lk, p, id) == (id :> lk[p]) @@ [lk EXCEPT ![p] = id]
LinkRemove(lk, p) == LET x == lk[p] IN [lk EXCEPT ![x] = x, ![p] = lk[x]]
LinkTruncate(lk, p) == [Invalidate(lk, lk[p]) EXCEPT ![p] = 0]

StepLink(o, r) ==
  \* new link map after operation o with abstract outcome r (r.st = 0)
  LET p == s.cur[o.c]
  IN  CASE o.op \in {"push"} -> LinkPush(link, p, s.nid)
        [] o.op = "set" -> IF AtEnd(s, o.c) THEN LinkPush(link, p, s.nid) ELSE link
        [] o.op = "remove" -> IF AtEnd(s, o.c) THEN link ELSE LinkRemove(link, p)
        [] o.op = "truncate" -> LinkTruncate(link, p)
        [] o.op = "clear" -> LinkTruncate(link, 0)
        [] OTHER -> link

Do(o, r) ==
  /\ s' = r.s /\ last' = r /\ path' = Append(path, o)
  /\ link' = IF r.st = 0 THEN StepLink(o, r) ELSE link

Next ==
  \/ \E c \in Curs, n \in 0..MaxLen : Do(Op("at", c, n, 0, <<>>), LAt(s, c, n))
  \/ \E c \in Curs, v \in Vals : Do(Op("find", c, 0, v, <<>>), LFind(s, c, v))
  \/ \E c \in Curs : Do(Op("last", c, 0, 0, <<>>), LLast(s, c))
  \/ \E c \in Curs : Do(Op("end", c, 0, 0, <<>>), LEnd(s, c))
  \/ \E c \in Curs : s.cur[c] >= 0 /\
       \/ Do(Op("next", c, 0, 0, <<>>), CNext(s, c))
       \/ Do(Op("get", c, 0, 0, <<>>), CGet(s, c))
       \/ Do(Op("remove", c, 0, 0, <<>>), CRemove(s, c))
       \/ Do(Op("truncate", c, 0, 0, <<>>),
             \* as-is switch F7: Truncate has no checkValid; on a stale cursor its
             \* invalidation walk never leaves the self-link (modelled as st = 3, "hang")
             IF "F7" \in Known /\ Stale(s, c) THEN [s |-> s, st |-> 3, rv |-> 0] ELSE CTruncate(s, c))
       \/ \E v \in Vals : Len(s.list) < MaxLen /\ Do(Op("push", c, 0, v, <<>>), CPush(s, c, v))
       \/ \E v \in Vals : Len(s.list) < MaxLen /\ Do(Op("set", c, 0, v, <<>>), CSet(s, c, v))
  \/ Do(Op("clear", 0, 0, 0, <<>>), LClear(s))
Spec == Init /\ [][Next]_vars

(* ---- invariants -------------------------------------------------------- *)
DistinctIds == Cardinality({s.list[i] : i \in DOMAIN s.list}) = Len(s.list)
\* pointer level refines the sequence: the chain from the sentinel is the list,
\* and an entry is a tombstone exactly when it has left the list
LinkRefines ==
  /\ Chain(link, 0) = s.list
  /\ \A e \in DOMAIN link : e # 0 => ((link[e] = e) <=> ~InList(s, e))
\* checkValid (link[pred] = pred) detects exactly the stale cursors
CheckValidDetectsStale ==
  \A c \in Curs : s.cur[c] > 0 => (Stale(s, c) <=> link[s.cur[c]] = s.cur[c])
\* a stale cursor never acts
StaleRefuses == last.st = 1 => last.s = s

NeverHangs == last.st # 3

\* forget entry ids: positions of cursors and values only
View == <<Values(s), [c \in Curs |-> IF s.cur[c] < 0 THEN 0 - 1 ELSE IF Stale(s, c) THEN 0 - 2 ELSE Pos(s, c)], last.st>>
Emit == PrintT(ToJson(path'))
=============================================================================
