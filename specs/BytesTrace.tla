------------------------------ MODULE BytesTrace ------------------------------
(***************************************************************************)
(* Record validation for C20: mbits on memory images with guard bytes      *)
(* (and, in a second placement, flush against inaccessible pages), Trunc,  *)
(* and the complete CompareNatural table over the specification's          *)
(* universe (pairwise laws on all pairs, transitivity on all triples of    *)
(* the sub-universe of strings of length <= 2).                            *)
(***************************************************************************)
EXTENDS Bytes, TraceBase

VARIABLES U, tab      \* CompareNatural: universe and the rows received so far

NatAlphabet == {48, 49, 57, 97, 58, 47}          \* 0 1 9 a : /
NatUniverse == StrsUpTo(NatAlphabet, 3)
NatAlphabet2 == {48, 49, 176, 177, 185, 97}      \* 0 1 and bytes that differ from digits only in the high bit
NatUniverse2 == StrsUpTo(NatAlphabet2, 3)
SeqSet(q) == {q[i] : i \in DOMAIN q}

TInit == TLCSet(1, 0) /\ l = 1 /\ U = <<>> /\ tab = <<>>

TableOK ==
  LET n == Len(U)
      cs == [i \in 1..n |-> CanonOf(U[i])]
      small == {i \in 1..n : Len(U[i]) <= 2}
  IN  /\ Len(tab) = n /\ \A i \in 1..n : Len(tab[i]) = n
      /\ \A i \in 1..n, j \in 1..n :
           /\ tab[i][j] \in {0 - 1, 0, 1}
           /\ tab[i][j] = 0 - tab[j][i]                                  \* antisymmetric
           /\ (tab[i][j] = 0) = (cs[i] = cs[j])                          \* 0 exactly up to leading zeros
           /\ NumericOrderOK(U[i], U[j], tab[i][j])                      \* digit runs by value
      /\ \A i \in small, j \in small, k \in small :
           (tab[i][j] <= 0 /\ tab[j][k] <= 0) => tab[i][k] <= 0          \* transitive

TStep ==
  /\ l <= N
  /\ l' = l + 1
  /\ LET e == Trace[l]
     IN  /\ e.panic = ""
         /\ CASE e.kind = "bits" ->
                   /\ e.lz = LeadingZ(e.data) /\ e.tz = TrailingZ(e.data)
                   /\ SubSeq(e.before, e.off + 1, e.off + e.n) = e.data
                   /\ e.mid = e.before                                   \* the read-only functions write nothing
                   /\ ZeroOK(e.before, e.off, e.n, e.after, e.zret)
                   /\ UNCHANGED <<U, tab>>
              [] e.kind = "trunc" -> TruncOK(e.s, e.n, e.out) /\ UNCHANGED <<U, tab>>
              [] e.kind = "natu" ->
                   /\ SeqSet(e.u) \in {NatUniverse, NatUniverse2} /\ Len(e.u) = Cardinality(SeqSet(e.u))
                   /\ U' = e.u /\ tab' = <<>>
              [] e.kind = "natrow" -> e.i = Len(tab) + 1 /\ tab' = Append(tab, e.row) /\ U' = U
              [] e.kind = "natend" -> TableOK /\ UNCHANGED <<U, tab>>
              [] OTHER -> FALSE

TSkip ==
  /\ l <= N
  /\ ~ENABLED TStep
  /\ Reject(l)
  /\ l' = NextNew(l)
  /\ U' = <<>> /\ tab' = <<>>

TNext == TStep \/ TSkip
TSpec == TInit /\ [][TNext]_<<U, tab, l>>
=============================================================================
