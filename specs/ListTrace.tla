------------------------------ MODULE ListTrace ------------------------------
(***************************************************************************)
(* Trace validation for the mlink.List part of C10: every recorded call on *)
(* a real list and its (up to three) cursors must be a step of ListSeq;    *)
(* st = 3 records a call that did not return (hang), which the             *)
(* specification never allows.                                             *)
(***************************************************************************)
EXTENDS ListSeq, TraceBase

VARIABLE s

TInit == TLCSet(1, 0) /\ l = 1 /\ s = EmptyList

TStep ==
  /\ l <= N
  /\ l' = l + 1
  /\ LET e == Trace[l]
         r == CASE e.op = "new"      -> Ok(EmptyList, 0)
                [] e.op = "at"       -> LAt(s, e.c, e.n)
                [] e.op = "find"     -> LFind(s, e.c, e.v)
                [] e.op = "last"     -> LLast(s, e.c)
                [] e.op = "end"      -> LEnd(s, e.c)
                [] e.op = "next"     -> CNext(s, e.c)
                [] e.op = "get"      -> CGet(s, e.c)
                [] e.op = "push"     -> CPush(s, e.c, e.v)
                [] e.op = "set"      -> CSet(s, e.c, e.v)
                [] e.op = "add"      -> CAdd(s, e.c, e.vs)
                [] e.op = "remove"   -> CRemove(s, e.c)
                [] e.op = "truncate" -> CTruncate(s, e.c)
                [] e.op = "clear"    -> LClear(s)
     IN  /\ s' = r.s
         /\ e.st = r.st                     \* ok / "invalid cursor" panic; never hang or other panic
         /\ (r.st = 0 => e.rv = r.rv)
         /\ e.each = Values(r.s)
         /\ e.len = Len(r.s.list)
         /\ e.empty = (r.s.list = <<>>)
         /\ \A i \in DOMAIN e.peeks : e.peeks[i] = PeekAt(r.s, e.peeks[i][1])
         /\ \A c \in 1..NCUR : e.curs[c] = Probe(r.s, c)

TSkip ==
  /\ l <= N
  /\ ~ENABLED TStep
  /\ Reject(l)
  /\ l' = NextNew(l)
  /\ s' = EmptyList

TNext == TStep \/ TSkip
TSpec == TInit /\ [][TNext]_<<s, l>>
=============================================================================
