----------------------------- MODULE OrderedMap -----------------------------
(***************************************************************************)
(* Specification of omap.Map and omap.Iter (C04): a finite map with        *)
(* ordered keys and iterators over it.                                     *)
(*   m    : function from the present keys to their values (copies of a    *)
(*          Map share it, so there is one store per history)               *)
(*   its  : iterator id -> [st |-> "valid" | "invalid" | "stale", k |-> key]*)
(*   res  : result of the last call                                        *)
(* The package documents that iterators must be re-synchronised (Seek)     *)
(* after the map is modified: a mutation marks valid iterators stale, and  *)
(* a stale iterator may only be re-seeked.                                 *)
(***************************************************************************)
EXTENDS Integers, Sequences, FiniteSets, TLC

CONSTANT Rev          \* BOOLEAN: comparator is the reverse of the natural order

VARIABLES m, its, res

Before(a, b) == IF Rev THEN a > b ELSE a < b

RECURSIVE SortKeys(_)
SortKeys(D) == IF D = {} THEN <<>>
               ELSE LET c == CHOOSE x \in D : \A y \in D : y = x \/ Before(x, y)
                    IN  <<c>> \o SortKeys(D \ {c})
KeysOf(f) == SortKeys(DOMAIN f)

Inv == [st |-> "invalid", k |-> 0]
AtKey(k) == [st |-> "valid", k |-> k]

\* least key >= k / extreme keys, as iterator positions
SeekPos(f, k) ==
  LET ge == {x \in DOMAIN f : x = k \/ Before(k, x)}
  IN  IF ge = {} THEN Inv ELSE AtKey(CHOOSE x \in ge : \A y \in ge : y = x \/ Before(x, y))
FirstPos(f) == IF DOMAIN f = {} THEN Inv ELSE AtKey(CHOOSE x \in DOMAIN f : \A y \in DOMAIN f : y = x \/ Before(x, y))
LastPos(f)  == IF DOMAIN f = {} THEN Inv ELSE AtKey(CHOOSE x \in DOMAIN f : \A y \in DOMAIN f : y = x \/ Before(y, x))
NextPos(f, p) ==
  IF p.st # "valid" THEN Inv
  ELSE LET gt == {x \in DOMAIN f : Before(p.k, x)}
       IN  IF gt = {} THEN Inv ELSE AtKey(CHOOSE x \in gt : \A y \in gt : y = x \/ Before(x, y))
PrevPos(f, p) ==
  IF p.st # "valid" THEN Inv
  ELSE LET lt == {x \in DOMAIN f : Before(x, p.k)}
       IN  IF lt = {} THEN Inv ELSE AtKey(CHOOSE x \in lt : \A y \in lt : y = x \/ Before(y, x))

Stale(i) == [x \in DOMAIN i |-> IF i[x].st = "valid" THEN [i[x] EXCEPT !.st = "stale"] ELSE i[x]]
Restrict(f, D) == [x \in D |-> f[x]]

MInit(ids) == m = <<>> /\ its = [i \in ids |-> Inv] /\ res = TRUE

MSet(k, v) ==
  /\ res' = (k \notin DOMAIN m)
  /\ m' = (k :> v) @@ m
  /\ its' = Stale(its)
MDelete(k) ==
  /\ res' = (k \in DOMAIN m)
  /\ m' = Restrict(m, DOMAIN m \ {k})
  /\ its' = IF k \in DOMAIN m THEN Stale(its) ELSE its
\* bulk forms for very large maps: Set(x, x) for x in lo..hi-1, Delete(x) for x in lo..hi-1
MBulkSet(lo, hi) ==
  /\ res' = ((lo..(hi - 1)) \cap DOMAIN m = {})
  /\ m' = [x \in lo..(hi - 1) |-> x] @@ m
  /\ its' = Stale(its)
MBulkDel(lo, hi) ==
  /\ res' = ((lo..(hi - 1)) \subseteq DOMAIN m)
  /\ m' = Restrict(m, DOMAIN m \ (lo..(hi - 1)))
  /\ its' = Stale(its)
MClear == res' = TRUE /\ m' = <<>> /\ its' = Stale(its)
MFirst(i)    == its' = [its EXCEPT ![i] = FirstPos(m)] /\ UNCHANGED <<m, res>>
MLast(i)     == its' = [its EXCEPT ![i] = LastPos(m)] /\ UNCHANGED <<m, res>>
MSeek(i, k)  == its' = [its EXCEPT ![i] = SeekPos(m, k)] /\ UNCHANGED <<m, res>>
MNext(i)     == its[i].st # "stale" /\ its' = [its EXCEPT ![i] = NextPos(m, its[i])] /\ UNCHANGED <<m, res>>
MPrev(i)     == its[i].st # "stale" /\ its' = [its EXCEPT ![i] = PrevPos(m, its[i])] /\ UNCHANGED <<m, res>>

(* observations *)
GetOK(f, k) == IF k \in DOMAIN f THEN <<f[k], 1>> ELSE <<0, 0>>
ItStatus(f, p) == IF p.st = "valid" THEN <<1, p.k, f[p.k]>> ELSE <<0, 0, 0>>
RECURSIVE Render(_, _)
Render(f, ks) ==
  IF ks = <<>> THEN ""
  ELSE ToString(ks[1]) \o ":" \o ToString(f[ks[1]]) \o (IF Len(ks) > 1 THEN " " ELSE "") \o Render(f, Tail(ks))
StringOf(f) == "omap[" \o Render(f, KeysOf(f)) \o "]"

(* what TLC checks on the design (OrderedMapMC) *)
ItersSane == \A i \in DOMAIN its : its[i].st = "valid" => its[i].k \in DOMAIN m
RECURSIVE Walk(_, _, _)      \* keys visited by First, Next, Next, ...
Walk(f, p, fuel) == IF p.st # "valid" \/ fuel = 0 THEN <<>> ELSE <<p.k>> \o Walk(f, NextPos(f, p), fuel - 1)
RECURSIVE WalkBack(_, _, _)
WalkBack(f, p, fuel) == IF p.st # "valid" \/ fuel = 0 THEN <<>> ELSE <<p.k>> \o WalkBack(f, PrevPos(f, p), fuel - 1)
Reverse(s) == [i \in 1..Len(s) |-> s[Len(s) + 1 - i]]
IterationOK ==
  /\ Walk(m, FirstPos(m), 100) = KeysOf(m)
  /\ WalkBack(m, LastPos(m), 100) = Reverse(KeysOf(m))
=============================================================================
