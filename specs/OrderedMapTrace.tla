--------------------------- MODULE OrderedMapTrace ---------------------------
(***************************************************************************)
(* Trace validation for C04: every recorded call on a real omap.Map (and   *)
(* on a copy of it, which shares the contents, and on a zero Map) and on   *)
(* its iterators must be a step of OrderedMap, with equal results and      *)
(* observations (Len, Keys, String, GetOK/Get, iterator validity/key/value)*)
(***************************************************************************)
EXTENDS OrderedMap, TraceBase

ItIds == {1, 2}

TInit == TLCSet(1, 0) /\ l = 1 /\ MInit(ItIds)

\* e.lite = 2: a blind call -- nothing was observed after it but the lookups listed (possibly
\* none); the map must not depend on being looked at to put itself in order
ObsOK(e, f) ==
  /\ e.panic = ""
  /\ (e.lite # 2 => e.len = Cardinality(DOMAIN f))
  /\ (IF e.lite = 2 THEN TRUE
      ELSE IF e.lite = 1 THEN e.keys = <<Cardinality(DOMAIN f)>>      \* very large map: number of keys only
      ELSE e.keys = KeysOf(f) /\ e.str = StringOf(f))
  /\ \A i \in DOMAIN e.gets :
       LET g == e.gets[i] IN <<g[2], g[3]>> = GetOK(f, g[1]) /\ g[4] = GetOK(f, g[1])[1]

\* calls on the zero Map: an empty read-only map, whatever the real map holds
ZeroStep(e) ==
  /\ e.op \in {"delete", "clear", "first", "last", "seek", "itseek", "next", "prev", "look"}
  /\ UNCHANGED <<m, its, res>>
  /\ (e.op = "delete" => e.res = FALSE)
  /\ e.it = <<0, 0, 0>>
  /\ ObsOK(e, <<>>)

RealStep(e) ==
  /\ CASE e.op = "set"    -> MSet(e.k, e.v) /\ e.res = res'
       [] e.op = "delete" -> MDelete(e.k) /\ e.res = res'
       [] e.op = "clear"  -> MClear
       [] e.op = "bulkset" -> MBulkSet(e.lo, e.hi) /\ e.res = res'
       [] e.op = "bulkdel" -> MBulkDel(e.lo, e.hi) /\ e.res = res'
       [] e.op = "look"   -> UNCHANGED <<m, its, res>>
       [] e.op = "first"  -> MFirst(e.i)
       [] e.op = "last"   -> MLast(e.i)
       [] e.op \in {"seek", "itseek"} -> MSeek(e.i, e.k)
       [] e.op = "next"   -> MNext(e.i)
       [] e.op = "prev"   -> MPrev(e.i)
       [] OTHER -> FALSE
  /\ (e.i \in ItIds => e.it = ItStatus(m', its'[e.i]))
  /\ ObsOK(e, m')

TStep ==
  /\ l <= N
  /\ l' = l + 1
  /\ LET e == Trace[l]
     IN  IF e.op = "new" THEN m' = <<>> /\ its' = [i \in ItIds |-> Inv] /\ res' = TRUE /\ ObsOK(e, <<>>)
                              /\ e.rev = Rev
         ELSE IF e.z = 1 THEN ZeroStep(e)
         ELSE RealStep(e)

TSkip ==
  /\ l <= N
  /\ ~ENABLED TStep
  /\ Reject(l)
  /\ l' = NextNew(l)
  /\ m' = <<>> /\ its' = [i \in ItIds |-> Inv] /\ res' = TRUE

TNext == TStep \/ TSkip
TSpec == TInit /\ [][TNext]_<<m, its, res, l>>
=============================================================================
