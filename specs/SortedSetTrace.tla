--------------------------- MODULE SortedSetTrace ---------------------------
(***************************************************************************)
(* Trace validation for C01: every recorded call on real stree.Tree values *)
(* (an original and its clones) must be a step of the abstract SortedSet,  *)
(* and every logged observation must equal the specification's.            *)
(***************************************************************************)
EXTENDS SortedSet, TraceBase

VARIABLE trees   \* tree id -> [s |-> abstract set, beta, rev]

FromIno(ino) == [c \in {ino[i][1] : i \in DOMAIN ino} |->
                   (CHOOSE k \in {ino[i] : i \in DOMAIN ino} : k[1] = c)[2]]

\* e.blind = 1: nothing but the Len field was read after the call (no walk, no lookup)
ObsOK(e, o) ==
  /\ e.panic = ""
  /\ e.len = SLen(o.s)
  /\ e.empty = (SLen(o.s) = 0)
  /\ (e.full = 1 /\ e.blind = 0 =>
        /\ e.ino = Inorder(o.s, o.rev)
        /\ e.min = MinKey(o.s, o.rev)
        /\ e.max = MaxKey(o.s, o.rev)
        /\ e.pre = Prefix(Inorder(o.s, o.rev), e.stop)
        /\ \A i \in DOMAIN e.gets :
             LET g == e.gets[i] IN GetKey(o.s, g[1]) = <<g[2], g[3], g[4]>>
        /\ \A i \in DOMAIN e.afters :
             LET a == e.afters[i]
             IN  a[3] = Prefix(InorderAfter(o.s, o.rev, a[1]), a[2]))

TInit == TLCSet(1, 0) /\ l = 1 /\ trees = <<>>

Upd(t, r) == [trees EXCEPT ![t].s = r.s]

TStep ==
  /\ l <= N
  /\ l' = l + 1
  /\ LET e == Trace[l]
     IN  /\ CASE e.op = "new" ->
                   LET m == FromIno(e.ino)
                   IN  /\ e.full = 1
                       /\ ValidNew(e.keys, m)
                       /\ trees' = (1 :> [s |-> WithP(m, 0), beta |-> e.beta, rev |-> e.rev])
               [] e.op = "add" ->
                   LET r == SAdd(trees[e.t].s, e.k) IN e.res = r.res /\ trees' = Upd(e.t, r)
               [] e.op = "replace" ->
                   LET r == SReplace(trees[e.t].s, e.k) IN e.res = r.res /\ trees' = Upd(e.t, r)
               [] e.op = "remove" ->
                   LET r == SRemove(trees[e.t].s, e.k) IN e.res = r.res /\ trees' = Upd(e.t, r)
               [] e.op = "clear" ->
                   trees' = Upd(e.t, SClear(trees[e.t].s))
               [] e.op = "clone" ->
                   trees' = (e.t2 :> trees[e.t]) @@ trees
               [] OTHER -> FALSE
         /\ ObsOK(e, trees'[IF e.op = "clone" THEN e.t2 ELSE e.t])
         \* trees not touched by this call (an original and its clones are independent)
         /\ \A i \in DOMAIN e.others :
              LET x == e.others[i] IN
              /\ x[1] \in DOMAIN trees' /\ x[3] = SLen(trees'[x[1]].s)
              /\ <<x[4], x[5]>> = MinKey(trees'[x[1]].s, trees'[x[1]].rev)
              /\ <<x[6], x[7]>> = MaxKey(trees'[x[1]].s, trees'[x[1]].rev)

TSkip ==
  /\ l <= N
  /\ ~ENABLED TStep
  /\ Reject(l)
  /\ l' = NextNew(l)
  /\ trees' = <<>>

TNext == TStep \/ TSkip
TSpec == TInit /\ [][TNext]_<<trees, l>>
=============================================================================
