SPECIFICATION Spec
CONSTANTS
  MaxLen = 3
  Vals = {1,2}
  Curs = {1,2}
  Known = {"F7"}
VIEW View
INVARIANTS DistinctIds LinkRefines CheckValidDetectsStale StaleRefuses NeverHangs
CHECK_DEADLOCK FALSE
