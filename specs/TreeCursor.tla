----------------------------- MODULE TreeCursor -----------------------------
(***************************************************************************)
(* Specification of stree.Cursor (C03).  A tree is <<key, left, right>> or *)
(* <<>> ; a cursor is [v |-> valid?, p |-> path from the root as a         *)
(* sequence of "L"/"R"].  Each move has two definitions:                   *)
(*   - abstract, by key order and tree structure (what the property says); *)
(*   - algorithmic, the walk-up loop over the path array of cursor.go.     *)
(* TLC checks them equal on every binary-tree shape up to MaxNodes nodes   *)
(* and every node, and emits (shape, start, moves) paths for replay.       *)
(***************************************************************************)
EXTENDS Integers, Sequences, FiniteSets, TLC, Json

NILT == <<>>
Invalid == [v |-> FALSE, p |-> <<>>]
At(p) == [v |-> TRUE, p |-> p]

RECURSIVE Sub(_, _)        \* subtree at path p, NILT if the path leaves the tree
Sub(t, p) == IF t = NILT \/ p = <<>> THEN t
             ELSE Sub(IF p[1] = "L" THEN t[2] ELSE t[3], Tail(p))

RECURSIVE Flat(_)
Flat(t) == IF t = NILT THEN <<>> ELSE Flat(t[2]) \o <<t[1]>> \o Flat(t[3])

RECURSIVE Paths(_)         \* all node paths of t
Paths(t) == IF t = NILT THEN {}
            ELSE {<<>>} \cup {<<"L">> \o q : q \in Paths(t[2])} \cup {<<"R">> \o q : q \in Paths(t[3])}

KeyAt(t, p) == Sub(t, p)[1]
Keys(t) == {KeyAt(t, p) : p \in Paths(t)}
PathOf(t, k) == CHOOSE p \in Paths(t) : KeyAt(t, p) = k

RECURSIVE IsBST(_)
IsBST(t) == LET f == Flat(t) IN \A i \in 1..(Len(f) - 1) : f[i] < f[i + 1]

(* ---- abstract moves: by key order / structure -------------------------- *)
KeyOf(t, c) == IF c.v THEN KeyAt(t, c.p) ELSE 0
AbsNext(t, c) ==
  IF ~c.v THEN Invalid
  ELSE LET bigger == {k \in Keys(t) : k > KeyAt(t, c.p)}
       IN  IF bigger = {} THEN Invalid
           ELSE At(PathOf(t, CHOOSE k \in bigger : \A j \in bigger : k <= j))
AbsPrev(t, c) ==
  IF ~c.v THEN Invalid
  ELSE LET smaller == {k \in Keys(t) : k < KeyAt(t, c.p)}
       IN  IF smaller = {} THEN Invalid
           ELSE At(PathOf(t, CHOOSE k \in smaller : \A j \in smaller : k >= j))
AbsChild(t, c, d) ==
  IF ~c.v THEN Invalid
  ELSE IF Sub(t, c.p \o <<d>>) = NILT THEN Invalid ELSE At(c.p \o <<d>>)
AbsUp(t, c) ==
  IF ~c.v \/ c.p = <<>> THEN Invalid ELSE At(SubSeq(c.p, 1, Len(c.p) - 1))
\* extreme key of the cursor's subtree
AbsMin(t, c) ==
  IF ~c.v THEN Invalid
  ELSE LET ks == Keys(Sub(t, c.p)) IN At(PathOf(t, CHOOSE k \in ks : \A j \in ks : k <= j))
AbsMax(t, c) ==
  IF ~c.v THEN Invalid
  ELSE LET ks == Keys(Sub(t, c.p)) IN At(PathOf(t, CHOOSE k \in ks : \A j \in ks : k >= j))
AbsInorder(t, c) == IF c.v THEN Flat(Sub(t, c.p)) ELSE <<>>

Move(t, c, m) ==
  CASE m = "next"  -> AbsNext(t, c)
    [] m = "prev"  -> AbsPrev(t, c)
    [] m = "left"  -> AbsChild(t, c, "L")
    [] m = "right" -> AbsChild(t, c, "R")
    [] m = "up"    -> AbsUp(t, c)
    [] m = "min"   -> AbsMin(t, c)
    [] m = "max"   -> AbsMax(t, c)

Moves == {"next", "prev", "left", "right", "up", "min", "max"}

\* the observable status of a cursor: <<valid, key, hasNext, hasPrev, hasLeft, hasRight, hasParent>>
B(x) == IF x THEN 1 ELSE 0
Status(t, c) ==
  <<B(c.v), KeyOf(t, c), B(AbsNext(t, c).v), B(AbsPrev(t, c).v),
    B(AbsChild(t, c, "L").v), B(AbsChild(t, c, "R").v), B(AbsUp(t, c).v)>>

(* ---- algorithmic moves: cursor.go -------------------------------------- *)
RECURSIVE Descend(_, _, _)   \* append d-children while they exist
Descend(t, p, d) == IF Sub(t, p \o <<d>>) = NILT THEN p ELSE Descend(t, p \o <<d>>, d)

\* findNext: right child then leftmost; else pop while the child is not a
\* left child of its parent (j = deepest index with p[j] = "L").
AlgNext(t, c) ==
  IF ~c.v THEN Invalid
  ELSE IF Sub(t, c.p \o <<"R">>) # NILT THEN At(Descend(t, c.p \o <<"R">>, "L"))
  ELSE LET js == {j \in 1..Len(c.p) : c.p[j] = "L"}
       IN  IF js = {} THEN Invalid
           ELSE At(SubSeq(c.p, 1, (CHOOSE j \in js : \A i \in js : i <= j) - 1))
AlgPrev(t, c) ==
  IF ~c.v THEN Invalid
  ELSE IF Sub(t, c.p \o <<"L">>) # NILT THEN At(Descend(t, c.p \o <<"L">>, "R"))
  ELSE LET js == {j \in 1..Len(c.p) : c.p[j] = "R"}
       IN  IF js = {} THEN Invalid
           ELSE At(SubSeq(c.p, 1, (CHOOSE j \in js : \A i \in js : i <= j) - 1))
AlgMin(t, c) == IF ~c.v THEN Invalid ELSE At(Descend(t, c.p, "L"))
AlgMax(t, c) == IF ~c.v THEN Invalid ELSE At(Descend(t, c.p, "R"))

(* ---- all shapes -------------------------------------------------------- *)
\* Trees with n nodes whose in-order keys are lo+1 .. lo+n.
RECURSIVE ShapesFrom(_, _)
ShapesFrom(n, lo) ==
  IF n = 0 THEN {NILT}
  ELSE UNION {{<<lo + i + 1, a, b>> : a \in ShapesFrom(i, lo), b \in ShapesFrom(n - 1 - i, lo + i + 1)} :
               i \in 0..(n - 1)}

RECURSIVE PreOrder(_)
PreOrder(t) == IF t = NILT THEN <<>> ELSE <<t[1]>> \o PreOrder(t[2]) \o PreOrder(t[3])
=============================================================================
