SPECIFICATION TSpec
CONSTANT Known = {}
INVARIANT Mark
POSTCONDITION Finished
CHECK_DEADLOCK FALSE
