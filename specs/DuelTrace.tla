------------------------------ MODULE DuelTrace ------------------------------
(***************************************************************************)
(* C09, third history shape: a duel.  The cache holds key k with value v0  *)
(* (tag; every entry has size 1; the limit is 1 when a call is an evicting *)
(* Put, else ample).  Two goroutines make ONE call each, at the same time:  *)
(*    get:    Get(k)          remove: Remove(k)      put: Put(k, v)        *)
(*    clear:  Clear()         evict:  Put(k2, v) with limit 1              *)
(* When both have returned, Get(k), Has(k), Len() and Size() are observed  *)
(* in quiescence, and the eviction reports are collected.  There are       *)
(* exactly two sequential orders; the record is accepted iff one of them   *)
(* explains both results, the reports (as a bag) and the final state.      *)
(* This is the linearizability condition of LinTrace specialised to two    *)
(* calls on a one-entry cache, cheap enough to decide hundreds of          *)
(* thousands of duels per run: the windows of some lock-free shortcuts and *)
(* split critical sections are a few instructions wide.                    *)
(* A call is [op, v]; a result is a triple (Get: <<tag, size, ok>>;        *)
(* Remove/Put: <<r, 0, 0>>; Clear: <<0, 0, 0>>).                           *)
(***************************************************************************)
EXTENDS TraceBase, FiniteSets

Miss == <<0, 0, 0>>
Hit(tag) == <<tag, 1, 1>>

\* the sequential cache, reduced to what a duel can reach:
\*   [has: k present, val: its tag, oth: k2 present, ov: its tag]
Start(v0) == [has |-> TRUE, val |-> v0, oth |-> FALSE, ov |-> 0]

\* Apply(s, c) = [s |-> next state, res |-> result triple, rep |-> sequence of reported tags]
Apply(s, c) ==
  CASE c.op = "get"    -> [s |-> s, res |-> IF s.has THEN Hit(s.val) ELSE Miss, rep |-> <<>>]
    [] c.op = "remove" -> [s |-> [s EXCEPT !.has = FALSE], res |-> <<IF s.has THEN 1 ELSE 0, 0, 0>>,
                           rep |-> IF s.has THEN <<s.val>> ELSE <<>>]
    [] c.op = "put"    -> \* ample limit: a replaced entry is reported
                          [s |-> [s EXCEPT !.has = TRUE, !.val = c.v], res |-> <<1, 0, 0>>,
                           rep |-> IF s.has THEN <<s.val>> ELSE <<>>]
    [] c.op = "clear"  -> [s |-> [s EXCEPT !.has = FALSE, !.oth = FALSE], res |-> Miss,
                           rep |-> (IF s.has THEN <<s.val>> ELSE <<>>) \o (IF s.oth THEN <<s.ov>> ELSE <<>>)]
    [] c.op = "evict"  -> \* Put(k2, v) with limit 1: k2 replaced if present, else k evicted if present
                          [s |-> [s EXCEPT !.has = FALSE, !.oth = TRUE, !.ov = c.v], res |-> <<1, 0, 0>>,
                           rep |-> IF s.oth THEN <<s.ov>> ELSE IF s.has THEN <<s.val>> ELSE <<>>]

\* with limit 1 a Put(k, v) after an evict must evict k2 in turn
ApplyL1(s, c) ==
  IF c.op = "put" /\ s.oth /\ ~s.has
    THEN [s |-> [s EXCEPT !.has = TRUE, !.val = c.v, !.oth = FALSE], res |-> <<1, 0, 0>>, rep |-> <<s.ov>>]
    ELSE Apply(s, c)

Bag(q) == [x \in {q[i] : i \in DOMAIN q} |-> Cardinality({i \in DOMAIN q : q[i] = x})]

Outcome(e, first, second, rf, rs) ==
  LET tight == e.a.op = "evict" \/ e.b.op = "evict"
      A1 == IF tight THEN ApplyL1(Start(e.v0), first) ELSE Apply(Start(e.v0), first)
      A2 == IF tight THEN ApplyL1(A1.s, second) ELSE Apply(A1.s, second)
      fin == A2.s
  IN  /\ rf = A1.res /\ rs = A2.res
      /\ Bag(e.evs) = Bag(A1.rep \o A2.rep)
      /\ e.get2 = (IF fin.has THEN Hit(fin.val) ELSE Miss)
      /\ e.has2 = fin.has
      /\ e.len2 = (IF fin.has THEN 1 ELSE 0) + (IF fin.oth THEN 1 ELSE 0)
      /\ e.size2 = e.len2

TInit == TLCSet(1, 0) /\ l = 1

TStep ==
  /\ l <= N
  /\ l' = l + 1
  /\ LET e == Trace[l]
     IN  /\ e.panic = ""
         /\ \/ Outcome(e, e.a, e.b, e.ra, e.rb)       \* a before b
            \/ Outcome(e, e.b, e.a, e.rb, e.ra)       \* b before a

TSkip == l <= N /\ ~ENABLED TStep /\ Reject(l) /\ l' = l + 1
TNext == TStep \/ TSkip
TSpec == TInit /\ [][TNext]_<<l>>
=============================================================================
