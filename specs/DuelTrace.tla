------------------------------ MODULE DuelTrace ------------------------------
(***************************************************************************)
(* C09, third history shape: a duel.  The cache holds key k with value v0  *)
(* (tag, size 1; limit 1 when the racer is an evicting Put, else ample).   *)
(* One goroutine calls Get(k) while another calls ONE writer:              *)
(*    remove: Remove(k)   put: Put(k, v1)   clear: Clear()                 *)
(*    evict:  Put(k2, v2) with limit 1 (k is the LRU victim)               *)
(* When both have returned, Get(k), Has(k), Len() and Size() are observed  *)
(* in quiescence.  There are exactly two sequential orders; the record is  *)
(* accepted iff one of them explains the concurrent Get and the quiescent  *)
(* observations are those of the final state (the same in both orders).    *)
(* This is the linearizability condition of LinTrace specialised to two    *)
(* calls, cheap enough to decide a hundred thousand duels per run: the     *)
(* windows of some lock-free shortcuts are a few instructions wide.        *)
(* A record: [racer, v0, v1, get, rres, get2, has2, len2, size2, evs]      *)
(***************************************************************************)
EXTENDS TraceBase

Miss == <<0, 0, 0>>
Hit(tag) == <<tag, 1, 1>>

\* result of Get(k) when it comes first / second
GetFirst(e) == Hit(e.v0)
GetSecond(e) == IF e.racer = "put" THEN Hit(e.v1) ELSE Miss
\* the final state, whatever the order
FinalGet(e) == IF e.racer = "put" THEN Hit(e.v1) ELSE Miss
FinalHas(e) == e.racer = "put"
FinalLen(e) == IF e.racer \in {"put", "evict"} THEN 1 ELSE 0
\* entries that left the cache, each reported exactly once: [key-tag]
Reports(e) == <<e.v0>>          \* remove, clear, evict: the old entry; put: the replaced old entry

TInit == TLCSet(1, 0) /\ l = 1

TStep ==
  /\ l <= N
  /\ l' = l + 1
  /\ LET e == Trace[l]
     IN  /\ e.panic = ""
         /\ e.racer \in {"remove", "put", "clear", "evict"}
         /\ e.get \in {GetFirst(e), GetSecond(e)}
         /\ (e.racer \in {"remove", "put", "evict"} => e.rres = 1)
         /\ e.get2 = FinalGet(e) /\ e.has2 = FinalHas(e)
         /\ e.len2 = FinalLen(e) /\ e.size2 = FinalLen(e)
         /\ e.evs = Reports(e)

TSkip == l <= N /\ ~ENABLED TStep /\ Reject(l) /\ l' = l + 1
TNext == TStep \/ TSkip
TSpec == TInit /\ [][TNext]_<<l>>
=============================================================================
