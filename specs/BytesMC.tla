------------------------------- MODULE BytesMC -------------------------------
(***************************************************************************)
(* For every zero/non-zero pattern up to the length bound: the             *)
(* word-at-a-time algorithms of mbits.go equal the byte-by-byte            *)
(* definitions and touch only offsets inside the slice.  Emits each        *)
(* pattern (to be placed at all 8 alignments by the driver).               *)
(***************************************************************************)
EXTENDS Bytes, Json
CONSTANT MaxLen
VARIABLE d
RECURSIVE Pats(_)
Pats(n) == IF n = 0 THEN {<<>>} ELSE {Append(p, b) : p \in Pats(n - 1), b \in {0, 1}}
\* all patterns up to MaxLen, plus boundary patterns for longer slices
Boundary(n) == {[i \in 1..n |-> IF i = k THEN 1 ELSE 0] : k \in 1..n} \cup {[i \in 1..n |-> 0]}
                \cup {[i \in 1..n |-> IF i <= k THEN 0 ELSE 1] : k \in 0..n} \cup {[i \in 1..n |-> IF i > k THEN 0 ELSE 1] : k \in 0..n}
Init == d \in (UNION {Pats(n) : n \in 0..MaxLen}) \cup (UNION {Boundary(n) : n \in (MaxLen + 1)..(MaxLen + 16)})
Next == UNCHANGED d
Spec == Init /\ [][Next]_d
InBounds(acc) == acc \subseteq 0..(Len(d) - 1)
AlgLZOK == LET r == AlgLZ(d) IN r.r = LeadingZ(d) /\ InBounds(r.acc)
AlgTZOK == LET r == AlgTZ(d) IN r.r = TrailingZ(d) /\ InBounds(r.acc)
EmitInput == PrintT(ToJson([pat |-> d]))
=============================================================================
