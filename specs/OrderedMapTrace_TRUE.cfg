SPECIFICATION TSpec
CONSTANT Rev = TRUE
INVARIANT Mark
POSTCONDITION Finished
CHECK_DEADLOCK FALSE
