SPECIFICATION Spec
CONSTANTS
  Sym = {1, 2, 3}
  MaxLen = 7
  Sym2 = {1, 2}
  MaxLen2 = 10
INVARIANTS PatienceOK EmitInput
CHECK_DEADLOCK FALSE
