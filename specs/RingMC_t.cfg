SPECIFICATION Spec
CONSTANT NElem = 6
VIEW View
INVARIANTS PointerRefines NextPrevInverse NothingLost
ACTION_CONSTRAINT Emit
CHECK_DEADLOCK FALSE
