--------------------------- MODULE EditScriptTrace ---------------------------
(***************************************************************************)
(* Record validation for C11: each line is one call                        *)
(* slice.EditScript(lhs, rhs) on the real code with its result; TLC        *)
(* evaluates the declarative definition ScriptOK on it.                    *)
(***************************************************************************)
EXTENDS EditScript, TraceBase

TInit == TLCSet(1, 0) /\ l = 1

TStep ==
  /\ l <= N
  /\ l' = l + 1
  /\ LET e == Trace[l]
     IN  /\ e.panic = ""
         /\ IF e.z = 1 THEN ScriptOKZ(e.script, e.lhs, e.rhs)   \* float64 elements with +0 / -0
                        ELSE ScriptOK(e.script, e.lhs, e.rhs)
         /\ e.lhs2 = e.lhs /\ e.rhs2 = e.rhs          \* inputs not modified

TSkip == l <= N /\ ~ENABLED TStep /\ Reject(l) /\ l' = l + 1
TNext == TStep \/ TSkip
TSpec == TInit /\ [][TNext]_<<l>>
=============================================================================
