SPECIFICATION Spec
CONSTANTS
  Known = {}
  Prios = {1, 2, 3}
  MaxLen = 6
  InitSeqs <- Seq3
  DistinctP = FALSE
VIEW View
INVARIANTS Conserved FrontIsMin HeapOrder ResultOK PosOK

CHECK_DEADLOCK FALSE
