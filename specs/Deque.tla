------------------------------- MODULE Deque -------------------------------
(***************************************************************************)
(* Abstract specification of queue.Queue (C07): a double-ended queue is a  *)
(* finite sequence; Add appends at the back, Push inserts at the front,    *)
(* Pop removes the front, PopLast removes the back.  Nothing about ring    *)
(* buffers here: this module is the property.                              *)
(***************************************************************************)
EXTENDS Integers, Sequences

VARIABLES q,    \* the sequence, front (oldest) first
          res   \* result of the last call: [v |-> value or Zero, ok |-> BOOLEAN]

Zero  == 0
NoRes == [v |-> Zero, ok |-> TRUE]

DInit == q = <<>> /\ res = NoRes

DAdd(v)  == q' = Append(q, v) /\ res' = NoRes
DPush(v) == q' = <<v>> \o q   /\ res' = NoRes
DPop ==
  IF q = <<>> THEN q' = q /\ res' = [v |-> Zero, ok |-> FALSE]
  ELSE q' = Tail(q) /\ res' = [v |-> Head(q), ok |-> TRUE]
DPopLast ==
  IF q = <<>> THEN q' = q /\ res' = [v |-> Zero, ok |-> FALSE]
  ELSE q' = SubSeq(q, 1, Len(q) - 1) /\ res' = [v |-> q[Len(q)], ok |-> TRUE]
DClear == q' = <<>> /\ res' = NoRes

(* Observations, as functions of the abstract sequence. *)
FrontOf(s) == IF s = <<>> THEN Zero ELSE s[1]
PeekAt(s, k) ==
  LET m == IF k < 0 THEN k + Len(s) ELSE k
  IN  IF m < 0 \/ m >= Len(s) THEN [v |-> Zero, ok |-> FALSE]
      ELSE [v |-> s[m + 1], ok |-> TRUE]
=============================================================================
