------------------------------- MODULE BigNat -------------------------------
(***************************************************************************)
(* Arbitrary-precision naturals for TLC, whose integers are 32-bit.  A     *)
(* number is a little-endian sequence of limbs in base 10000 without       *)
(* leading (trailing in the sequence) zero limbs; zero is <<>>.            *)
(* Used for exact comparisons such as 2000^d <= P * (1000+beta)^d.         *)
(***************************************************************************)
EXTENDS Integers, Sequences

BNBase == 10000

RECURSIVE BNFromInt(_)
BNFromInt(n) == IF n = 0 THEN <<>> ELSE <<n % BNBase>> \o BNFromInt(n \div BNBase)

\* a * m for a small multiplier m (m * BNBase must stay below 2^31)
RECURSIVE BNMulGo(_, _, _, _)
BNMulGo(a, m, i, carry) ==
  IF i > Len(a) THEN BNFromInt(carry)
  ELSE LET t == a[i] * m + carry
       IN  <<t % BNBase>> \o BNMulGo(a, m, i + 1, t \div BNBase)
BNMulSmall(a, m) == IF m = 0 THEN <<>> ELSE BNMulGo(a, m, 1, 0)

\* a <= b
RECURSIVE BNLeqGo(_, _, _)
BNLeqGo(a, b, i) ==
  IF i = 0 THEN TRUE
  ELSE IF a[i] # b[i] THEN a[i] < b[i]
  ELSE BNLeqGo(a, b, i - 1)
BNLeq(a, b) ==
  IF Len(a) # Len(b) THEN Len(a) < Len(b) ELSE BNLeqGo(a, b, Len(a))

RECURSIVE BNGcd(_, _)
BNGcd(a, b) == IF b = 0 THEN a ELSE BNGcd(b, a % b)

\* m^d as a BigNat, for 1 <= m <= 2000.  Recursive *function* on a finite
\* domain: TLC evaluates it lazily and caches the values.
BNMaxExp == 400
BNPow[m \in 1..2000, d \in 0..BNMaxExp] ==
  IF d = 0 THEN <<1>> ELSE BNMulSmall(BNPow[m, d - 1], m)

(* PowLEExact(beta, d, P):  (2000/(1000+beta))^d <= P, exactly.             *)
PowLEExact(beta, d, P) ==
  LET g == BNGcd(2000, 1000 + beta)
      num == 2000 \div g
      den == (1000 + beta) \div g
  IN  IF d <= 0 THEN P >= 1
      ELSE BNLeq(BNPow[num, d], BNMulSmall(BNPow[den, d], P))

(* Interval filter.  The exact comparison costs O(d^2) limb operations;     *)
(* histories with deep trees (beta = 999, height 200) ask it at every       *)
(* event.  (num/den)^d is therefore first enclosed between two binary       *)
(* floating-point numbers <<m, e>> = m * 2^e with a 15-bit mantissa, the    *)
(* lower one always rounded down and the upper one always rounded up (all   *)
(* intermediate products stay below 2^31).  Only when P falls between the   *)
(* two (a few per cent around the boundary) is the exact comparison needed. *)
(* BigNatMC checks PowLE = PowLEExact on a grid that includes boundaries.   *)
Two15 == 32768
RECURSIVE NormLo(_, _)
NormLo(q, e) == IF q >= Two15 THEN NormLo(q \div 2, e + 1) ELSE <<q, e>>
RECURSIVE NormUp(_, _)
NormUp(q, e) == IF q >= Two15 THEN NormUp((q + 1) \div 2, e + 1) ELSE <<q, e>>
StepLo(x, num, den) == NormLo((x[1] * num * 16) \div den, x[2] - 4)
StepUp(x, num, den) == NormUp((x[1] * num * 16 + den - 1) \div den, x[2] - 4)
RECURSIVE PowIv(_, _, _, _, _)
PowIv(num, den, d, lo, up) ==
  IF d = 0 THEN [lo |-> lo, up |-> up]
  ELSE PowIv(num, den, d - 1, StepLo(lo, num, den), StepUp(up, num, den))
\* m * 2^e <= P   (P >= 0 a machine integer)
FlLeq(x, P) ==
  LET m == x[1] e == x[2]
  IN  IF e >= 0 THEN e <= 15 /\ m * (2 ^ e) <= P
      ELSE IF 0 - e >= 30 THEN (IF m = 0 THEN TRUE ELSE P >= 1)
      ELSE (m + (2 ^ (0 - e)) - 1) \div (2 ^ (0 - e)) <= P

PowLE(beta, d, P) ==
  IF d <= 0 THEN P >= 1
  ELSE LET g == BNGcd(2000, 1000 + beta)
           num == 2000 \div g
           den == (1000 + beta) \div g
           iv == PowIv(num, den, d, <<16384, 0 - 14>>, <<16384, 0 - 14>>)
       IN  IF FlLeq(iv.up, P) THEN TRUE
           ELSE IF ~FlLeq(iv.lo, P) THEN FALSE
           ELSE PowLEExact(beta, d, P)

(* floor(log_{2000/(1000+beta)} n) for beta < 1000, n >= 1 *)
RECURSIVE FloorLogGo(_, _, _)
FloorLogGo(beta, n, d) == IF PowLE(beta, d + 1, n) THEN FloorLogGo(beta, n, d + 1) ELSE d
FloorLog(beta, n) == FloorLogGo(beta, n, 0)
=============================================================================
