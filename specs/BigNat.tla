------------------------------- MODULE BigNat -------------------------------
(***************************************************************************)
(* Arbitrary-precision naturals for TLC, whose integers are 32-bit.  A     *)
(* number is a little-endian sequence of limbs in base 10000 without       *)
(* leading (trailing in the sequence) zero limbs; zero is <<>>.            *)
(* Used for exact comparisons such as 2000^d <= P * (1000+beta)^d.         *)
(***************************************************************************)
EXTENDS Integers, Sequences

BNBase == 10000

RECURSIVE BNFromInt(_)
BNFromInt(n) == IF n = 0 THEN <<>> ELSE <<n % BNBase>> \o BNFromInt(n \div BNBase)

\* a * m for a small multiplier m (m * BNBase must stay below 2^31)
RECURSIVE BNMulGo(_, _, _, _)
BNMulGo(a, m, i, carry) ==
  IF i > Len(a) THEN BNFromInt(carry)
  ELSE LET t == a[i] * m + carry
       IN  <<t % BNBase>> \o BNMulGo(a, m, i + 1, t \div BNBase)
BNMulSmall(a, m) == IF m = 0 THEN <<>> ELSE BNMulGo(a, m, 1, 0)

\* a <= b
RECURSIVE BNLeqGo(_, _, _)
BNLeqGo(a, b, i) ==
  IF i = 0 THEN TRUE
  ELSE IF a[i] # b[i] THEN a[i] < b[i]
  ELSE BNLeqGo(a, b, i - 1)
BNLeq(a, b) ==
  IF Len(a) # Len(b) THEN Len(a) < Len(b) ELSE BNLeqGo(a, b, Len(a))

RECURSIVE BNGcd(_, _)
BNGcd(a, b) == IF b = 0 THEN a ELSE BNGcd(b, a % b)

\* m^d as a BigNat, for 1 <= m <= 2000.  Recursive *function* on a finite
\* domain: TLC evaluates it lazily and caches the values.
BNMaxExp == 400
BNPow[m \in 1..2000, d \in 0..BNMaxExp] ==
  IF d = 0 THEN <<1>> ELSE BNMulSmall(BNPow[m, d - 1], m)

(* PowLE(beta, d, P):  (2000/(1000+beta))^d <= P, exactly.                  *)
PowLE(beta, d, P) ==
  LET g == BNGcd(2000, 1000 + beta)
      num == 2000 \div g
      den == (1000 + beta) \div g
  IN  IF d <= 0 THEN P >= 1
      ELSE BNLeq(BNPow[num, d], BNMulSmall(BNPow[den, d], P))

(* floor(log_{2000/(1000+beta)} n) for beta < 1000, n >= 1 *)
RECURSIVE FloorLogGo(_, _, _)
FloorLogGo(beta, n, d) == IF PowLE(beta, d + 1, n) THEN FloorLogGo(beta, n, d + 1) ELSE d
FloorLog(beta, n) == FloorLogGo(beta, n, 0)
=============================================================================
