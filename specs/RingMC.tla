------------------------------- MODULE RingMC -------------------------------
(***************************************************************************)
(* The pointer-level model of ring.go (next/prev fields and the four       *)
(* assignments of Join, the splice of Pop) in lock-step with RingSpec, for *)
(* ALL pairs of elements over every partition of up to N elements into     *)
(* rings: same ring at every distance, different rings, singletons.        *)
(***************************************************************************)
EXTENDS RingSpec, Json

CONSTANT NElem

VARIABLES nx, pv,     \* pointer level: next and prev fields
          nxt,        \* abstract successor function
          ret, aret,  \* Join's return value: pointer level / abstract
          path
vars == <<nx, pv, nxt, ret, aret, path>>
Elems == 1..NElem

Op(name, r, s, vs) == [op |-> name, r |-> r, s |-> s, vs |-> vs]

\* initial states: every way to build the elements as consecutive rings by Of
RECURSIVE Splits(_)     \* compositions of n: sequences of positive ring sizes
Splits(n) == IF n = 0 THEN {<<>>} ELSE UNION {{<<k>> \o t : t \in Splits(n - k)} : k \in 1..n}
RECURSIVE Build(_, _, _, _)
Build(sizes, lo, f, p) ==
  IF sizes = <<>> THEN [f |-> f, p |-> p]
  ELSE LET q == [i \in 1..sizes[1] |-> lo + i]
       IN  Build(Tail(sizes), lo + sizes[1], AOf(f, q), Append(p, Op("of", 0, 0, q)))

Init ==
  \E n \in 1..NElem : \E sz \in Splits(n) :
    LET b == Build(sz, 0, <<>>, <<[op |-> "new", r |-> 0, s |-> 0, vs |-> <<>>]>>)
    IN  /\ nxt = b.f /\ nx = b.f
        /\ pv = [x \in DOMAIN b.f |-> Prev(b.f, x)]
        /\ ret = 0 /\ aret = 0 /\ path = b.p

\* ring.go Join: r.next = s; s.prev = r; sprev.next = rnext; rnext.prev = sprev
PJoin(r, s) ==
  IF r = s \/ nx[r] = s THEN nx' = nx /\ pv' = pv /\ ret' = 0
  ELSE LET rnext == nx[r]
           sprev == pv[s]
       IN  /\ nx' = [nx EXCEPT ![r] = s, ![sprev] = rnext]
           /\ pv' = [pv EXCEPT ![s] = r, ![rnext] = sprev]
           /\ ret' = rnext
\* ring.go Pop
PPop(r) ==
  IF pv[r] = r THEN nx' = nx /\ pv' = pv
  ELSE /\ nx' = [nx EXCEPT ![pv[r]] = nx[r], ![r] = r]
       /\ pv' = [pv EXCEPT ![nx[r]] = pv[r], ![r] = r]

Next ==
  \/ \E r, s \in DOMAIN nxt :
       LET a == AJoin(nxt, r, s)
       IN  PJoin(r, s) /\ nxt' = a.nxt /\ aret' = a.ret /\ path' = Append(path, Op("join", r, s, <<>>))
  \/ \E r \in DOMAIN nxt :
       PPop(r) /\ nxt' = APop(nxt, r) /\ ret' = 0 /\ aret' = 0 /\ path' = Append(path, Op("pop", r, 0, <<>>))
Spec == Init /\ [][Next]_vars

PointerRefines == nx = nxt /\ ret = aret
NextPrevInverse == \A x \in DOMAIN nx : pv[nx[x]] = x /\ nx[pv[x]] = x
NothingLost == IsPermutation(nxt) /\ DOMAIN nxt = DOMAIN nx
View == <<nx, pv, ret>>
Emit == PrintT(ToJson(path'))
=============================================================================
