SPECIFICATION Spec
CONSTANT MaxLen = 12
INVARIANTS AlgLZOK AlgTZOK EmitInput
CHECK_DEADLOCK FALSE
