---------------------------- MODULE OrderedMapMC ----------------------------
(***************************************************************************)
(* Exhaustive exploration of OrderedMap over a small universe: invariants  *)
(* of the iterator design, and one operation path per generated transition *)
(* for replay against the real omap.Map.                                   *)
(***************************************************************************)
EXTENDS OrderedMap, Json

CONSTANTS Keys, Vals, Iters, Probe   \* Probe: seek targets (includes absent keys below/above)

VARIABLE path
mvars == <<m, its, res, path>>

Op(name, i, k, v) == [op |-> name, it |-> i, k |-> k, v |-> v, rev |-> Rev, z |-> 0, w |-> 0]

Init == MInit(Iters) /\ path = <<Op("new", 0, 0, 0)>>

Next ==
  \/ \E k \in Keys, v \in Vals : MSet(k, v) /\ path' = Append(path, Op("set", 0, k, v))
  \/ \E k \in Keys : MDelete(k) /\ path' = Append(path, Op("delete", 0, k, 0))
  \/ MClear /\ path' = Append(path, Op("clear", 0, 0, 0))
  \/ \E i \in Iters :
       \/ MFirst(i) /\ path' = Append(path, Op("first", i, 0, 0))
       \/ MLast(i) /\ path' = Append(path, Op("last", i, 0, 0))
       \/ MNext(i) /\ path' = Append(path, Op("next", i, 0, 0))
       \/ MPrev(i) /\ path' = Append(path, Op("prev", i, 0, 0))
       \/ \E k \in Probe : MSeek(i, k) /\ path' = Append(path, Op("seek", i, k, 0))
       \/ \E k \in Probe : MSeek(i, k) /\ path' = Append(path, Op("itseek", i, k, 0))

Spec == Init /\ [][Next]_mvars

\* Seek(k) then Prev lands on the greatest key < k
SeekPrevOK ==
  \A k \in Probe :
    LET p == SeekPos(m, k)
        lt == {x \in DOMAIN m : Before(x, k)}
    IN  /\ (p.st = "valid" => (p.k = k \/ Before(k, p.k)) /\ \A x \in DOMAIN m : Before(x, p.k) => Before(x, k))
        /\ (p.st = "valid" /\ lt # {} => PrevPos(m, p).st = "valid" /\ PrevPos(m, p).k \in lt
                                         /\ \A x \in lt : x = PrevPos(m, p).k \/ Before(x, PrevPos(m, p).k))
        /\ (p.st = "invalid" => \A x \in DOMAIN m : Before(x, k))

View == <<m, its>>
Emit == PrintT(ToJson(path'))
=============================================================================
