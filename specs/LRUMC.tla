------------------------------- MODULE LRUMC -------------------------------
(***************************************************************************)
(* Exhaustive exploration of the abstract LRU cache over a small universe  *)
(* (keys, sizes incl. zero and oversize, limits): accounting invariants,   *)
(* exactly-once eviction reports; one operation path per transition for    *)
(* replay on the real cache.Cache.                                         *)
(***************************************************************************)
EXTENDS LRU, Json

CONSTANTS Keys, Sizes, Limits, Unit

VARIABLES c, res, ev, gone, path
vars == <<c, res, ev, gone, path>>

Op(name, k, v) == [op |-> name, k |-> k, v |-> v, limit |-> c.limit, unit |-> c.unit]

Init ==
  \E lim \in Limits :
    /\ c = NewCache(lim, Unit) /\ res = TRUE /\ ev = <<>> /\ gone = <<>>
    /\ path = <<[op |-> "new", k |-> 0, v |-> ZeroV, limit |-> lim, unit |-> Unit]>>

Do(r, o) == c' = r.s /\ res' = r.res /\ ev' = r.ev /\ gone' = gone \o r.ev /\ path' = Append(path, o)

\* the tag of a stored value is the number of puts so far in this path, bounded
NextTag == (Len(SelectSeq(path, LAMBDA o : o.op = "put")) % 2) + 1

Next ==
  \/ \E k \in Keys, z \in Sizes : Do(LPut(c, k, <<NextTag, z>>), Op("put", k, <<NextTag, z>>))
  \/ \E k \in Keys : Do(LGet(c, k), Op("get", k, ZeroV))
  \/ \E k \in Keys : Do(LHas(c, k), Op("has", k, ZeroV))
  \/ \E k \in Keys : Do(LRemove(c, k), Op("remove", k, ZeroV))
  \/ Do(LClear(c), Op("clear", 0, ZeroV))

Spec == Init /\ [][Next]_vars

AccountingOK == Accounting(c)
\* a refused Put changes nothing; an accepted one leaves the key most recent
PutOK == (path[Len(path)].op = "put" /\ res = TRUE) => c.order[Len(c.order)] = path[Len(path)].k
\* nothing is reported that was not present, and what is reported is gone
EvictedAreGone == \A i \in DOMAIN ev : \/ ~Present(c, ev[i][1])
                                        \/ (path[Len(path)].op = "put" /\ path[Len(path)].k = ev[i][1])

View == <<c>>
Emit == PrintT(ToJson(path'))
=============================================================================
