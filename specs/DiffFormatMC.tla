---------------------------- MODULE DiffFormatMC ----------------------------
(***************************************************************************)
(* Design-level check of the text formats for every pair in the space:     *)
(* a writer that spells ranges by the published conventions (WriterConv =  *)
(* {}) produces hunks that, applied by DiffFormat's rules, turn Left into  *)
(* Right in all three formats; the writer as the code has it (WriterConv = *)
(* {"F6"}: empty unified range spelled with the following line) is refuted *)
(* by TLC.  Chunks come from the transcription of mdiff.New (no context,   *)
(* so empty sides occur).                                                  *)
(***************************************************************************)
EXTENDS DiffFormat, Json
CONSTANTS Sym, MaxLen, Sym2, MaxLen2, WriterConv
VARIABLES lhs, rhs
Space == (SeqsUpTo(Sym, MaxLen) \X SeqsUpTo(Sym, MaxLen)) \cup (SeqsUpTo(Sym2, MaxLen2) \X SeqsUpTo(Sym2, MaxLen2))
Init == \E p \in Space : lhs = p[1] /\ rhs = p[2]
Next == UNCHANGED <<lhs, rhs>>
Spec == Init /\ [][Next]_<<lhs, rhs>>

Tagged(tag, ls) == [i \in DOMAIN ls |-> <<tag, ls[i]>>]
RECURSIVE UBody(_)
UBody(es) ==
  IF es = <<>> THEN <<>>
  ELSE LET e == es[1]
       IN  (CASE e[1] = "=" -> Tagged(" ", e[2]) [] e[1] = "-" -> Tagged("-", e[2])
              [] e[1] = "+" -> Tagged("+", e[3]) [] e[1] = "!" -> Tagged("-", e[2]) \o Tagged("+", e[3])) \o UBody(Tail(es))
\* uspan: one line -> count omitted; empty -> "s-1,0" by the published rule, "s,0" as the code has it
USpan(lo, hi) == IF hi - lo = 1 THEN <<lo, 0 - 1>>
                 ELSE IF hi = lo /\ "F6" \notin WriterConv THEN <<lo - 1, 0>> ELSE <<lo, hi - lo>>
UHunks(cs) == [i \in DOMAIN cs |-> <<USpan(cs[i].ls, cs[i].le) \o USpan(cs[i].rs, cs[i].re), UBody(cs[i].edits)>>]

DSpan(lo, hi) == IF hi - lo = 1 THEN <<lo, 0 - 1>> ELSE <<lo, hi - 1>>
RECURSIVE NHunksOf(_, _, _, _)
NHunksOf(es, k, lpos, rpos) ==
  IF k > Len(es) THEN <<>>
  ELSE LET e == es[k] nx == Len(e[2]) ny == Len(e[3])
       IN  CASE e[1] = "=" -> NHunksOf(es, k + 1, lpos + nx, rpos + nx)
             [] e[1] = "-" -> <<<<DSpan(lpos, lpos + nx) \o <<"d", rpos - 1, 0 - 1>>, Tagged("<", e[2])>>>> \o NHunksOf(es, k + 1, lpos + nx, rpos)
             [] e[1] = "+" -> <<<<<<lpos - 1, 0 - 1, "a">> \o DSpan(rpos, rpos + ny), Tagged(">", e[3])>>>> \o NHunksOf(es, k + 1, lpos, rpos + ny)
             [] e[1] = "!" -> <<<<DSpan(lpos, lpos + nx) \o <<"c">> \o DSpan(rpos, rpos + ny),
                                 Tagged("<", e[2]) \o <<<<"---", 0>>>> \o Tagged(">", e[3])>>>> \o NHunksOf(es, k + 1, lpos + nx, rpos + ny)
RECURSIVE NHunks(_, _)
NHunks(cs, i) == IF i > Len(cs) THEN <<>> ELSE NHunksOf(cs[i].edits, 1, cs[i].ls, cs[i].rs) \o NHunks(cs, i + 1)

RECURSIVE CBody(_, _)
CBody(es, side) ==     \* side "old" / "new"
  IF es = <<>> THEN <<>>
  ELSE LET e == es[1]
       IN  (CASE e[1] = "=" -> Tagged(" ", e[2])
              [] e[1] = "-" -> IF side = "old" THEN Tagged("-", e[2]) ELSE <<>>
              [] e[1] = "+" -> IF side = "new" THEN Tagged("+", e[3]) ELSE <<>>
              [] e[1] = "!" -> IF side = "old" THEN Tagged("!", e[2]) ELSE Tagged("!", e[3])) \o CBody(Tail(es), side)
Relevant(es, op) == \E i \in DOMAIN es : es[i][1] = op \/ es[i][1] = "!"
CHunks(cs) == [i \in DOMAIN cs |->
  <<DSpan(cs[i].ls, cs[i].le) \o DSpan(cs[i].rs, cs[i].re),
    IF Relevant(cs[i].edits, "-") THEN CBody(cs[i].edits, "old") ELSE <<>>,
    IF Relevant(cs[i].edits, "+") THEN CBody(cs[i].edits, "new") ELSE <<>>>>]

Chunks == ModelNew(AlgEditScript(lhs, rhs))
UnifiedOK == UnifiedApplies(UHunks(Chunks), lhs, rhs)
NormalOK == NormalApplies(NHunks(Chunks, 1), lhs, rhs)
ContextOK == ContextApplies(CHunks(Chunks), lhs, rhs)
=============================================================================
