------------------------------- MODULE MapSet -------------------------------
(***************************************************************************)
(* Specification of mapset.Set (C18).  TLA+ sets ARE the reference: three  *)
(* named set variables, each either nil or a finite set of integers; every *)
(* mutating method is an operator on that state, every predicate is the    *)
(* set-theoretic one.  A nil set behaves as empty for reading; Add/AddAll  *)
(* through a nil receiver allocate; constructors return non-nil sets that  *)
(* share nothing with their arguments (each name owns its own set here, so *)
(* aliasing in the code shows up as a later difference).                   *)
(***************************************************************************)
EXTENDS Integers, Sequences, FiniteSets, TLC

Names == 1..3
NilSet == [nil |-> TRUE, m |-> {}]
Mk(S) == [nil |-> FALSE, m |-> S]
Sets0 == [x \in Names |-> NilSet]
SeqSet(q) == {q[i] : i \in DOMAIN q}

MNew(st, x, items)     == [st EXCEPT ![x] = Mk(SeqSet(items))]
MAdd(st, x, items)     == [st EXCEPT ![x] = Mk(st[x].m \cup SeqSet(items))]
MAddRange(st, x, lo, hi) == [st EXCEPT ![x] = Mk(st[x].m \cup (lo..(hi - 1)))]
MAddAll(st, x, y)      == [st EXCEPT ![x] = Mk(st[x].m \cup st[y].m)]
MRemove(st, x, items)  == [st EXCEPT ![x].m = @ \ SeqSet(items)]
MRemoveAll(st, x, y)   == [st EXCEPT ![x].m = @ \ st[y].m]
MClear(st, x)          == [st EXCEPT ![x].m = {}]
MClone(st, x, d)       == [st EXCEPT ![d] = Mk(st[x].m)]
\* Intersect(ss...): the empty intersection is the empty set (not the universe)
RECURSIVE Inter(_, _, _)
Inter(st, xs, i) == IF i > Len(xs) THEN st[xs[1]].m ELSE st[xs[i]].m \cap Inter(st, xs, i + 1)
MIntersect(st, xs, d)  == [st EXCEPT ![d] = Mk(IF xs = <<>> THEN {} ELSE Inter(st, xs, 1))]
\* Pop: removes exactly one member that was present (which one is not specified)
PopOK(st, x, ret, st2) ==
  IF st[x].m = {} THEN ret = 0 /\ st2 = st
  ELSE ret \in st[x].m /\ st2 = [st EXCEPT ![x].m = @ \ {ret}]

\* predicates
Intersects(a, b) == a.m \cap b.m # {}
IsSubset(a, b) == a.m \subseteq b.m
Equals(a, b) == a.m = b.m
HasAll(a, ts) == SeqSet(ts) \subseteq a.m
HasAny(a, ts) == SeqSet(ts) \cap a.m # {}

RECURSIVE SortSet(_)
SortSet(S) == IF S = {} THEN <<>> ELSE LET x == CHOOSE v \in S : \A w \in S : v <= w IN <<x>> \o SortSet(S \ {x})
=============================================================================
