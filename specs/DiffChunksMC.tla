---------------------------- MODULE DiffChunksMC ----------------------------
(***************************************************************************)
(* For every pair of line sequences in the space: the transcription of     *)
(* mdiff.New over the transcribed EditScript yields chunks satisfying      *)
(* AfterNew.  Each pair is printed (with every context size) as input for  *)
(* the real code.                                                          *)
(***************************************************************************)
EXTENDS DiffChunks, Json
CONSTANTS Sym, MaxLen, Sym2, MaxLen2, MaxN
VARIABLES lhs, rhs
Space == (SeqsUpTo(Sym, MaxLen) \X SeqsUpTo(Sym, MaxLen)) \cup (SeqsUpTo(Sym2, MaxLen2) \X SeqsUpTo(Sym2, MaxLen2))
Init == \E p \in Space : lhs = p[1] /\ rhs = p[2]
Next == UNCHANGED <<lhs, rhs>>
Spec == Init /\ [][Next]_<<lhs, rhs>>
NewOK == AfterNew(lhs, rhs, ModelNew(AlgEditScript(lhs, rhs)))
EmitInput == PrintT(ToJson([lhs |-> lhs, rhs |-> rhs, maxn |-> MaxN]))
=============================================================================
