----------------------------- MODULE DiffFormat -----------------------------
(***************************************************************************)
(* Specification of the mdiff text formats (C14).  The driver only LEXES   *)
(* the formatter's bytes into hunks (header numbers as written, body lines *)
(* with their tags); what the numbers MEAN is defined here, by the         *)
(* published rules of the normal, unified and context formats as GNU patch *)
(* applies them, strictly (no fuzz, no offset search):                     *)
(*   normal   LaR : after line L of the old file come new lines R          *)
(*            FcT : old lines F become new lines T                         *)
(*            RdL : old lines R go; L is the new-file line before them     *)
(*   unified  -s,c +t,d : count omitted = 1; count 0 = empty side, and the *)
(*            start then names the line BEFORE the (empty) range           *)
(*   context  *** s,e **** / --- s,e ---- : lines s..e; e = s-1 = empty,   *)
(*            beginning at s; a side without changes may omit its lines    *)
(* Conv is the set of as-is switches (how the code has it instead):        *)
(*   "F6" unified writer: an empty range is written with the line AFTER it *)
(*   "F5" unified reader: an omitted count is read as 0                    *)
(* Lines are small integers; a body line is <<tag, line>>.                 *)
(***************************************************************************)
EXTENDS DiffChunks

CONSTANT Conv

\* total versions of SubSeq (TLC raises an error on out-of-range indices;
\* the callers check the bounds explicitly)
Sub(q, a, b) == IF a > b THEN <<>> ELSE SubSeq(q, IF a < 1 THEN 1 ELSE a, IF b > Len(q) THEN Len(q) ELSE b)
Seg(q, lo, n) == Sub(q, lo, lo + n - 1)           \* n lines from line lo (1-based)
Texts(body, tags) == LET sel == SelectSeq(body, LAMBDA b : b[1] \in tags) IN [i \in DOMAIN sel |-> sel[i][2]]
Cnt(x) == IF x = 0 - 1 THEN 1 ELSE x              \* omitted count = 1

(* ---- unified ----------------------------------------------------------- *)
\* hunk = <<<<s, c, t, d>>, body>>, body tags " ", "-", "+"
RECURSIVE UApply(_, _, _, _, _)
UApply(hs, k, L, lpos, out) ==       \* returns <<ok, output>>
  IF k > Len(hs) THEN <<TRUE, out \o Sub(L, lpos, Len(L))>>
  ELSE LET h == hs[k] hd == h[1] body == h[2]
           c == Cnt(hd[2]) d == Cnt(hd[4])
           start == IF c = 0 /\ "F6" \notin Conv THEN hd[1] + 1 ELSE hd[1]
           old == Texts(body, {" ", "-"})
           new == Texts(body, {" ", "+"})
           out1 == out \o Sub(L, lpos, start - 1)
           tstart == IF d = 0 /\ "F6" \notin Conv THEN hd[3] + 1 ELSE hd[3]
       IN  IF /\ \A i \in DOMAIN body : body[i][1] \in {" ", "-", "+"}
              /\ start >= lpos /\ start - 1 <= Len(L) /\ start + c - 1 <= Len(L)
              /\ Len(old) = c /\ Len(new) = d
              /\ old = Seg(L, start, c)
              /\ Len(out1) + 1 = tstart
            THEN UApply(hs, k + 1, L, start + c, out1 \o new)
            ELSE <<FALSE, out>>
UnifiedApplies(hs, L, R) == UApply(hs, 1, L, 1, <<>>) = <<TRUE, R>>

(* ---- normal ------------------------------------------------------------ *)
\* hunk = <<<<f1, f2, cmd, t1, t2>>, body>>; f2, t2 = -1 when not written;
\* body tags "<", ">", "---"
Hi(a, b) == IF b = 0 - 1 THEN a ELSE b
RECURSIVE NApply(_, _, _, _, _)
NApply(hs, k, L, lpos, out) ==
  IF k > Len(hs) THEN <<TRUE, out \o Sub(L, lpos, Len(L))>>
  ELSE LET h == hs[k] hd == h[1] body == h[2]
           f1 == hd[1] f2 == Hi(hd[1], hd[2]) cmd == hd[3] t1 == hd[4] t2 == Hi(hd[4], hd[5])
           old == Texts(body, {"<"})
           new == Texts(body, {">"})
           seps == Len(SelectSeq(body, LAMBDA b : b[1] = "---"))
       IN  CASE cmd = "a" ->
                  LET out1 == out \o Sub(L, lpos, f1)
                  IN  IF f1 + 1 >= lpos /\ f1 <= Len(L) /\ hd[2] = 0 - 1 /\ old = <<>> /\ seps = 0
                         /\ Len(new) = t2 - t1 + 1 /\ new # <<>> /\ Len(out1) + 1 = t1
                        THEN NApply(hs, k + 1, L, f1 + 1, out1 \o new) ELSE <<FALSE, out>>
             [] cmd = "d" ->
                  LET out1 == out \o Sub(L, lpos, f1 - 1)
                  IN  IF f1 >= lpos /\ f2 <= Len(L) /\ hd[5] = 0 - 1 /\ new = <<>> /\ seps = 0
                         /\ old # <<>> /\ old = Seg(L, f1, f2 - f1 + 1) /\ Len(out1) = t1
                        THEN NApply(hs, k + 1, L, f2 + 1, out1) ELSE <<FALSE, out>>
             [] cmd = "c" ->
                  LET out1 == out \o Sub(L, lpos, f1 - 1)
                  IN  IF f1 >= lpos /\ f2 <= Len(L) /\ seps = 1
                         /\ old # <<>> /\ old = Seg(L, f1, f2 - f1 + 1)
                         /\ new # <<>> /\ Len(new) = t2 - t1 + 1 /\ Len(out1) + 1 = t1
                        THEN NApply(hs, k + 1, L, f2 + 1, out1 \o new) ELSE <<FALSE, out>>
             [] OTHER -> <<FALSE, out>>
NormalApplies(hs, L, R) == NApply(hs, 1, L, 1, <<>>) = <<TRUE, R>>

(* ---- context ----------------------------------------------------------- *)
\* hunk = <<<<s1, e1, s2, e2>>, oldbody, newbody>>; e = -1 when a single number
\* was written; oldbody tags "-", " ", "!"; newbody tags "+", " ", "!"
RECURSIVE CApply(_, _, _, _, _)
CApply(hs, k, L, lpos, out) ==
  IF k > Len(hs) THEN <<TRUE, out \o Sub(L, lpos, Len(L))>>
  ELSE LET h == hs[k] hd == h[1] ob == h[2] nb == h[3]
           s1 == hd[1] e1 == Hi(hd[1], hd[2]) s2 == hd[3] e2 == Hi(hd[3], hd[4])
           ctxO == Texts(ob, {" "}) ctxN == Texts(nb, {" "})
           \* a side that lists no lines is implied by the other side's context
           old == IF ob = <<>> THEN ctxN ELSE Texts(ob, {"-", " ", "!"})
           new == IF nb = <<>> THEN ctxO ELSE Texts(nb, {"+", " ", "!"})
           out1 == out \o Sub(L, lpos, s1 - 1)
       IN  IF /\ s1 >= lpos /\ s1 - 1 <= Len(L) /\ e1 <= Len(L) /\ e1 >= s1 - 1 /\ e2 >= s2 - 1
              /\ Len(old) = e1 - s1 + 1 /\ Len(new) = e2 - s2 + 1
              /\ old = Seg(L, s1, e1 - s1 + 1)
              /\ (ob # <<>> /\ nb # <<>> => ctxO = ctxN)
              /\ Len(out1) + 1 = s2
            THEN CApply(hs, k + 1, L, e1 + 1, out1 \o new)
            ELSE <<FALSE, out>>
ContextApplies(hs, L, R) == CApply(hs, 1, L, 1, <<>>) = <<TRUE, R>>

(* ---- what the readers must return -------------------------------------- *)
\* a Replace comes back from the unified reader as its Drop and Copy halves
RECURSIVE SplitReplace(_)
SplitReplace(es) ==
  IF es = <<>> THEN <<>>
  ELSE (IF es[1][1] = "!" THEN <<<<"-", es[1][2], <<>>>>, <<"+", <<>>, es[1][3]>>>> ELSE <<es[1]>>) \o SplitReplace(Tail(es))

\* "F5": a side of exactly one line is written without a count and read back as empty
RdEnd(lo, hi) == IF "F5" \in Conv /\ hi - lo = 1 THEN lo ELSE hi
ExpectUnified(cs) ==
  [i \in DOMAIN cs |-> [ls |-> cs[i].ls, le |-> RdEnd(cs[i].ls, cs[i].le), rs |-> cs[i].rs, re |-> RdEnd(cs[i].rs, cs[i].re),
                        edits |-> SplitReplace(cs[i].edits)]]

\* normal format: one chunk per change command
RECURSIVE PerCommand(_, _, _, _)
PerCommand(es, k, lpos, rpos) ==
  IF k > Len(es) THEN <<>>
  ELSE LET e == es[k] nx == Len(e[2]) ny == Len(e[3])
       IN  IF e[1] = "=" THEN PerCommand(es, k + 1, lpos + nx, rpos + nx)
           ELSE <<[ls |-> lpos, le |-> lpos + nx, rs |-> rpos, re |-> rpos + ny, edits |-> <<e>>]>>
                \o PerCommand(es, k + 1, lpos + nx, rpos + ny)
RECURSIVE ExpectNormalFrom(_, _)
ExpectNormalFrom(cs, i) ==
  IF i > Len(cs) THEN <<>> ELSE PerCommand(cs[i].edits, 1, cs[i].ls, cs[i].rs) \o ExpectNormalFrom(cs, i + 1)
ExpectNormal(cs) == ExpectNormalFrom(cs, 1)

\* re-formatting the parsed patch gives the same bytes; with "F5" a one-line
\* side was read back as empty and is re-written as "s,0"
OneLineSide(cs) == \E i \in DOMAIN cs : cs[i].le - cs[i].ls = 1 \/ cs[i].re - cs[i].rs = 1
ExpectSameBytes(cs) == IF "F5" \in Conv THEN ~OneLineSide(cs) ELSE TRUE
=============================================================================
