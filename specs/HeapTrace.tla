------------------------------ MODULE HeapTrace ------------------------------
(***************************************************************************)
(* Trace validation against the implementation-shaped Heap model.  With    *)
(* Known = {"F1","F2"} this is the *as-is* model of heapq.go: a recorded   *)
(* history is accepted iff the real queue produced exactly the arrays,     *)
(* results and position reports that the code as written (with its two     *)
(* known defects) prescribes.  bin/check uses it to attribute rejections   *)
(* of PriorityBagTrace to the known findings; anything it rejects is a     *)
(* different deviation and is reported as a violation.                     *)
(***************************************************************************)
EXTENDS Heap, TraceBase

VARIABLES data, dir

SetOf(s) == {s[i] : i \in DOMAIN s}
LessP(d, a, b) == Less(d, a, b)
SortedPerm(d, in, out) ==
  /\ Len(in) = Len(out)
  /\ \A x \in SetOf(in) \cup SetOf(out) :
       Cardinality({i \in DOMAIN in : in[i] = x}) = Cardinality({i \in DOMAIN out : out[i] = x})
  /\ \A i \in 1..(Len(out) - 1) : ~LessP(d, out[i + 1], out[i])

S0 == [d |-> data, rep |-> <<>>]
RepOK(e, rep) == e.upd = 1 => e.moves = rep

TInit == TLCSet(1, 0) /\ l = 1 /\ data = <<>> /\ dir = 1

TStep ==
  /\ l <= N
  /\ l' = l + 1
  /\ LET e == Trace[l]
     IN  /\ e.panic = ""
         /\ CASE e.op = "new" ->
                    LET s == Heapify(e.dir, [d |-> e.vs, rep |-> <<>>])
                    IN  data' = s.d /\ dir' = e.dir      \* no callback is installed yet
               [] e.op = "add" ->
                    LET r == AddTo(dir, S0, e.e)
                    IN  data' = r.s.d /\ dir' = dir /\ e.ri = r.i /\ RepOK(e, r.s.rep)
               [] e.op \in {"pop", "remove"} ->
                    /\ dir' = dir
                    /\ IF e.i >= Len(data) THEN ~e.rok /\ data' = data
                       ELSE LET r == PopAt(dir, S0, e.i)
                            IN  e.rok /\ e.ret = r.out /\ data' = r.s.d /\ RepOK(e, r.s.rep)
               [] e.op = "set" ->
                    LET s == SetAll(dir, e.vs) IN data' = s.d /\ dir' = dir /\ RepOK(e, s.rep)
               [] e.op = "reorder" ->
                    LET s == Heapify(e.dir, S0) IN data' = s.d /\ dir' = e.dir /\ RepOK(e, s.rep)
               [] e.op = "clear" -> data' = <<>> /\ dir' = dir
               [] e.op = "sort" -> data' = data /\ dir' = dir /\ SortedPerm(e.dir, e.vs, e.out)
               [] OTHER -> FALSE
         /\ (e.op # "sort" /\ e.blind = 0 => e.arr = data')

TSkip ==
  /\ l <= N
  /\ ~ENABLED TStep
  /\ Reject(l)
  /\ l' = NextNew(l)
  /\ data' = <<>> /\ dir' = 1

TNext == TStep \/ TSkip
TSpec == TInit /\ [][TNext]_<<data, dir, l>>
=============================================================================
