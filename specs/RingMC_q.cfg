SPECIFICATION Spec
CONSTANT NElem = 4
VIEW View
INVARIANTS PointerRefines NextPrevInverse NothingLost
ACTION_CONSTRAINT Emit
CHECK_DEADLOCK FALSE
