------------------------------ MODULE LinTrace ------------------------------
(***************************************************************************)
(* Linearizability checking for C09.  Every line of the trace file is one  *)
(* concurrent history recorded from a real cache.Cache: the calls of       *)
(* several goroutines with invocation/response sequence numbers (a shared  *)
(* atomic counter), their results, and the global eviction-callback log    *)
(* (callbacks run under the cache's mutex, so their order is the           *)
(* linearization order).                                                   *)
(*                                                                         *)
(* TLC SEARCHES for a linearization: Lin(i) takes call i next iff every    *)
(* call that returned before i was invoked has been taken, i's recorded    *)
(* result is what the sequential LRU specification returns in the current  *)
(* state, and the callbacks LRU emits for it are the next entries of the   *)
(* recorded log.  A history is linearizable iff all its calls can be       *)
(* taken and the whole log is consumed; only then does the search move on  *)
(* to the next line.  The high-water mark of l therefore names the first   *)
(* history that has NO linearization.                                      *)
(***************************************************************************)
EXTENDS LRU, TraceBase

VARIABLES done, c, cbp

H == Trace[l]
SeqSet(q) == {q[i] : i \in DOMAIN q}
B(x) == IF x THEN 1 ELSE 0

\* a history may start from a cache pre-filled (sequentially, before the goroutines start) with
\* keys 1001 .. 1000+fill, values <<key, fsz>>, in that order of use
Prefilled(limit, unit, n, sz) ==
  [order |-> [i \in 1..n |-> 1000 + i], val |-> [x \in 1001..(1000 + n) |-> <<x, sz>>], limit |-> limit, unit |-> unit]
Start(i) == IF i <= N THEN (IF Trace[i].fill > 0 THEN Prefilled(Trace[i].limit, Trace[i].unit, Trace[i].fill, Trace[i].fsz)
                            ELSE NewCache(Trace[i].limit, Trace[i].unit))
            ELSE NewCache(1, TRUE)

TInit == TLCSet(1, 0) /\ l = 1 /\ done = {} /\ cbp = 0 /\ c = Start(1)

Lin(i) ==
  LET o == H.ops[i]
      r == CASE o.op = "put"    -> LPut(c, o.k, o.v)
             [] o.op = "get"    -> LGet(c, o.k)
             [] o.op = "has"    -> LHas(c, o.k)
             [] o.op = "remove" -> LRemove(c, o.k)
             [] o.op = "clear"  -> LClear(c)
             [] o.op = "len"    -> [s |-> c, res |-> CLen(c), ev |-> <<>>]
             [] o.op = "size"   -> [s |-> c, res |-> CSize(c), ev |-> <<>>]
      nev == IF o.op = "clear" THEN CLen(c) ELSE Len(r.ev)
  IN  /\ i \notin done
      /\ \A j \in DOMAIN H.ops : H.ops[j].ret < o.inv => j \in done     \* real-time order
      /\ CASE o.op \in {"put", "has", "remove"} -> o.res = B(r.res)
           [] o.op = "get" -> o.rv = r.res
           [] o.op \in {"len", "size"} -> o.res = r.res
           [] OTHER -> TRUE
      /\ cbp + nev <= Len(H.cb)
      /\ IF o.op = "clear"
           THEN SeqSet(SubSeq(H.cb, cbp + 1, cbp + nev)) = ClearEvs(c)
           ELSE SubSeq(H.cb, cbp + 1, cbp + nev) = r.ev
      /\ c' = r.s /\ cbp' = cbp + nev /\ done' = done \cup {i} /\ l' = l

NextHist ==
  /\ l <= N
  /\ done = DOMAIN H.ops
  /\ H.panic = ""
  /\ cbp = Len(H.cb)          \* nothing was reported that the linearization does not explain
  /\ l' = l + 1 /\ done' = {} /\ cbp' = 0 /\ c' = Start(l + 1)

TNext == (l <= N /\ \E i \in DOMAIN H.ops : Lin(i)) \/ NextHist
TSpec == TInit /\ [][TNext]_<<l, done, c, cbp>>

HighWater == PrintT(<<"HIGHWATER", TLCGet(1), N>>)
=============================================================================
