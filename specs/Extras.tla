-------------------------------- MODULE Extras --------------------------------
(***************************************************************************)
(* Specifications for parts of creachadair/mds that no listed property     *)
(* covers (growth of the specification): package compare, package value,   *)
(* mstr.Lines / mstr.Split, and the remaining functions of package slice   *)
(* (Dedup, Reverse, Zero, Select, MapKeys, MatchingKeys).  Checked by the  *)
(* unregistered check `bin/check X01`.                                     *)
(***************************************************************************)
EXTENDS Integers, Sequences, FiniteSets, TLC

Sign(x) == IF x < 0 THEN 0 - 1 ELSE IF x > 0 THEN 1 ELSE 0
SeqSet(q) == {q[i] : i \in DOMAIN q}

(* compare *)
FromLessOK(a, b, r) == r = Sign(a - b)                 \* less = (<) on integers
ToLessOK(a, b, r) == r = (a < b)
ReversedOK(a, b, r) == Sign(r) = Sign(b - a)            \* Reversed(compare of integers)
BoolOK(a, b, r) == r = (IF a = b THEN 0 ELSE IF a THEN 1 ELSE 0 - 1)   \* false < true
TimeOK(a, b, r) == r = Sign(a - b)                      \* instants as integers (offsets from a base time, any zone)

(* value: a Maybe is <<present, v>>; a pointer is <<nil, v>> *)
JustOK(v, m) == m = <<TRUE, v>>
AbsentOK(m) == m = <<FALSE, 0>>
OrOK(m, o, r) == r = (IF m[1] THEN m ELSE <<TRUE, o>>)
PtrOK(m, p) == p = (IF m[1] THEN <<FALSE, m[2]>> ELSE <<TRUE, 0>>)
AtOK(p, v) == v = (IF p[1] THEN 0 ELSE p[2])
AtDefaultOK(p, d, v) == v = (IF p[1] THEN d ELSE p[2])
AtMaybeOK(p, m) == m = (IF p[1] THEN <<FALSE, 0>> ELSE <<TRUE, p[2]>>)
CondOK(b, x, y, v) == v = (IF b THEN x ELSE y)
CheckOK(v, failed, m) == m = (IF failed THEN <<FALSE, 0>> ELSE <<TRUE, v>>)

(* mstr.Lines, mstr.Split: byte strings; separators are single bytes here *)
RECURSIVE SplitAt(_, _)          \* strings.Split semantics for a one-byte separator
SplitAt(s, sep) ==
  LET hits == {i \in DOMAIN s : s[i] = sep}
  IN  IF hits = {} THEN <<s>>
      ELSE LET i == CHOOSE x \in hits : \A y \in hits : x <= y
           IN  <<SubSeq(s, 1, i - 1)>> \o SplitAt(SubSeq(s, i + 1, Len(s)), sep)
SplitOK(s, sep, r) == r = (IF s = <<>> THEN <<>> ELSE SplitAt(s, sep))
LinesOK(s, r) ==
  r = (IF s = <<>> THEN <<>>
       ELSE SplitAt(IF s[Len(s)] = 10 THEN SubSeq(s, 1, Len(s) - 1) ELSE s, 10))

(* slice: Dedup (adjacent duplicates), Reverse, Zero, Select, MapKeys, MatchingKeys *)
RECURSIVE Compact(_)
Compact(s) == IF Len(s) <= 1 THEN s
              ELSE IF s[1] = s[2] THEN Compact(Tail(s)) ELSE <<s[1]>> \o Compact(Tail(s))
DedupOK(s, r) == r = Compact(s)
ReverseOK(s, r) == r = [i \in 1..Len(s) |-> s[Len(s) + 1 - i]]
ZeroOK(s, r) == r = [i \in 1..Len(s) |-> 0]
SelectOK(s, keep, stop, r) ==       \* elements in keep, in order; iteration stopped after `stop` results (0 = never)
  LET sel == SelectSeq(s, LAMBDA v : v \in keep)
  IN  r = (IF stop = 0 \/ stop >= Len(sel) THEN sel ELSE SubSeq(sel, 1, stop))
MapKeysOK(keys, r) == SeqSet(r) = SeqSet(keys) /\ Len(r) = Cardinality(SeqSet(keys))
MatchingKeysOK(keys, vals, want, r) ==   \* map keys[i] -> vals[i]; keys whose value is in want, each once
  /\ SeqSet(r) = {keys[i] : i \in {j \in DOMAIN keys : vals[j] \in want}}
  /\ Len(r) = Cardinality(SeqSet(r))
=============================================================================
