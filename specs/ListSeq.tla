------------------------------ MODULE ListSeq ------------------------------
(***************************************************************************)
(* Abstract specification of mlink.List edited through cursors (C10).      *)
(* A list state is                                                         *)
(*   [list |-> sequence of entry ids (fresh per insertion),                *)
(*    val  |-> id -> value,                                                *)
(*    cur  |-> cursor number -> id of the entry BEFORE the cursor's        *)
(*             position (0 = before the first element, -1 = no cursor),    *)
(*    nid  |-> next fresh id]                                              *)
(* A cursor is STALE iff that entry has left the list (it was removed,     *)
(* truncated or cleared away): every use of a stale cursor must panic with *)
(* "invalid cursor" and change nothing.  The documented before/after       *)
(* pictures of Push/Add/Set/Remove/Truncate are the definitions below.     *)
(* Every operator returns [s |-> state, st |-> 0 ok | 1 invalid-cursor     *)
(* panic, rv |-> returned value].                                          *)
(***************************************************************************)
EXTENDS Integers, Sequences, FiniteSets, TLC

NCUR == 3
EmptyList == [list |-> <<>>, val |-> <<>>, cur |-> [c \in 1..NCUR |-> 0 - 1], nid |-> 1]

InList(s, id) == \E i \in DOMAIN s.list : s.list[i] = id
IndexOf(s, id) == CHOOSE i \in DOMAIN s.list : s.list[i] = id
Stale(s, c) == s.cur[c] > 0 /\ ~InList(s, s.cur[c])
Pos(s, c) == IF s.cur[c] = 0 THEN 0 ELSE IndexOf(s, s.cur[c])     \* elements before the cursor
AtEnd(s, c) == Pos(s, c) = Len(s.list)
Values(s) == [i \in DOMAIN s.list |-> s.val[s.list[i]]]
PredAt(s, p) == IF p = 0 THEN 0 ELSE s.list[p]                     \* cursor value for position p

Ok(s, rv) == [s |-> s, st |-> 0, rv |-> rv]
Panic(s) == [s |-> s, st |-> 1, rv |-> 0]
Min2(a, b) == IF a < b THEN a ELSE b

\* positioning (List methods; they create the cursor c afresh)
LAt(s, c, n) == Ok([s EXCEPT !.cur[c] = PredAt(s, Min2(n, Len(s.list)))], 0)
LFind(s, c, v) ==
  LET hits == {i \in DOMAIN s.list : s.val[s.list[i]] = v}
      p == IF hits = {} THEN Len(s.list) ELSE (CHOOSE i \in hits : \A j \in hits : i <= j) - 1
  IN  Ok([s EXCEPT !.cur[c] = PredAt(s, p)], 0)
LLast(s, c) == Ok([s EXCEPT !.cur[c] = PredAt(s, IF Len(s.list) = 0 THEN 0 ELSE Len(s.list) - 1)], 0)
LEnd(s, c) == Ok([s EXCEPT !.cur[c] = PredAt(s, Len(s.list))], 0)

\* cursor methods
CNext(s, c) ==
  IF Stale(s, c) THEN Panic(s)
  ELSE IF AtEnd(s, c) THEN Ok(s, 0)
  ELSE LET s1 == [s EXCEPT !.cur[c] = s.list[Pos(s, c) + 1]]
       IN  Ok(s1, IF AtEnd(s1, c) THEN 0 ELSE 1)
CGet(s, c) ==
  IF Stale(s, c) THEN Panic(s)
  ELSE Ok(s, IF AtEnd(s, c) THEN 0 ELSE s.val[s.list[Pos(s, c) + 1]])
InsertAt(s, p, v) ==   \* new entry after position p
  [s EXCEPT !.list = SubSeq(s.list, 1, p) \o <<s.nid>> \o SubSeq(s.list, p + 1, Len(s.list)),
            !.val = (s.nid :> v) @@ s.val, !.nid = s.nid + 1]
CPush(s, c, v) == IF Stale(s, c) THEN Panic(s) ELSE Ok(InsertAt(s, Pos(s, c), v), 0)
CSet(s, c, v) ==
  IF Stale(s, c) THEN Panic(s)
  ELSE IF AtEnd(s, c) THEN Ok(InsertAt(s, Pos(s, c), v), 0)
  ELSE Ok([s EXCEPT !.val[s.list[Pos(s, c) + 1]] = v], 0)
RECURSIVE CAdd(_, _, _)
CAdd(s, c, vs) ==
  IF vs = <<>> THEN (IF Stale(s, c) THEN Panic(s) ELSE Ok(s, 0))
  ELSE LET r == CPush(s, c, Head(vs))
       IN  IF r.st # 0 THEN r ELSE CAdd(CNext(r.s, c).s, c, Tail(vs))
CRemove(s, c) ==
  IF Stale(s, c) THEN Panic(s)
  ELSE IF AtEnd(s, c) THEN Ok(s, 0)
  ELSE LET p == Pos(s, c)
       IN  Ok([s EXCEPT !.list = SubSeq(s.list, 1, p) \o SubSeq(s.list, p + 2, Len(s.list))], s.val[s.list[p + 1]])
CTruncate(s, c) ==
  IF Stale(s, c) THEN Panic(s)
  ELSE Ok([s EXCEPT !.list = SubSeq(s.list, 1, Pos(s, c))], 0)
LClear(s) == Ok([s EXCEPT !.list = <<>>], 0)

\* what probing a cursor shows: <<status, atEnd, value>>; 9 = no such cursor
Probe(s, c) ==
  IF s.cur[c] < 0 THEN <<9, 0, 0>>
  ELSE IF Stale(s, c) THEN <<1, 0, 0>>
  ELSE <<0, IF AtEnd(s, c) THEN 1 ELSE 0, CGet(s, c).rv>>
PeekAt(s, n) == IF n < Len(s.list) THEN <<n, s.val[s.list[n + 1]], 1>> ELSE <<n, 0, 0>>
=============================================================================
