SPECIFICATION Spec
CONSTANTS
  Betas <- BetasQ
  Ds <- DsQ
CHECK_DEADLOCK FALSE
