------------------------------ MODULE LRUTrace ------------------------------
(***************************************************************************)
(* Trace validation for C08: every recorded sequential call on a real      *)
(* cache.Cache must be a step of the abstract LRU: same result, same Len   *)
(* and Size, Size <= limit, and the eviction callback fired exactly for    *)
(* the entries LRU evicts, in LRU order (for Clear: exactly once each, in  *)
(* any order).                                                             *)
(***************************************************************************)
EXTENDS LRU, TraceBase

VARIABLE c

TInit == TLCSet(1, 0) /\ l = 1 /\ c = NewCache(1, TRUE)

SeqSet(q) == {q[i] : i \in DOMAIN q}

TStep ==
  /\ l <= N
  /\ l' = l + 1
  /\ LET e == Trace[l]
         r == CASE e.op = "new"    -> [s |-> NewCache(e.limit, e.unit), res |-> TRUE, ev |-> <<>>]
                [] e.op = "put"    -> LPut(c, e.k, e.v)
                [] e.op = "get"    -> LGet(c, e.k)
                [] e.op = "getn"   -> LGet(c, e.k)          \* repeated Gets of one key move it once
                [] e.op = "fill"   -> LFill(c, e.k, e.n)
                [] e.op = "has"    -> LHas(c, e.k)
                [] e.op = "remove" -> LRemove(c, e.k)
                [] e.op = "clear"  -> LClear(c)
     IN  /\ e.panic = ""
         /\ c' = r.s
         /\ (e.op \in {"put", "has", "remove", "fill"} => e.res = r.res)
         /\ (e.op \in {"get", "getn"} => e.rv = r.res)
         /\ (e.op = "getn" => e.res = TRUE)
         /\ (IF e.op = "clear"
               THEN SeqSet(e.evs) = ClearEvs(c) /\ Len(e.evs) = CLen(c)
               ELSE e.evs = r.ev)
         /\ e.len = CLen(r.s)
         /\ e.size = CSize(r.s)
         /\ e.size <= r.s.limit

TSkip ==
  /\ l <= N
  /\ ~ENABLED TStep
  /\ Reject(l)
  /\ l' = NextNew(l)
  /\ c' = NewCache(1, TRUE)

TNext == TStep \/ TSkip
TSpec == TInit /\ [][TNext]_<<c, l>>
=============================================================================
