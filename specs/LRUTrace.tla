------------------------------ MODULE LRUTrace ------------------------------
(***************************************************************************)
(* Trace validation for C08: every recorded sequential call on a real      *)
(* cache.Cache must be a step of the abstract LRU: same result, same Len   *)
(* and Size, Size <= limit, and the eviction callback fired exactly for    *)
(* the entries LRU evicts, in LRU order (for Clear: exactly once each, in  *)
(* any order).                                                             *)
(***************************************************************************)
EXTENDS LRU, TraceBase

VARIABLE c

TInit == TLCSet(1, 0) /\ l = 1 /\ c = NewCache(1, TRUE)

SeqSet(q) == {q[i] : i \in DOMAIN q}

TStep ==
  /\ l <= N
  /\ l' = l + 1
  /\ LET e == Trace[l]
         r == CASE e.op = "new"    -> [s |-> NewCache(e.limit, e.unit), res |-> TRUE, ev |-> <<>>]
                [] e.op = "put"    -> LPut(c, e.k, e.v)
                [] e.op = "get"    -> LGet(c, e.k)
                [] e.op = "has"    -> LHas(c, e.k)
                [] e.op = "remove" -> LRemove(c, e.k)
                [] e.op = "clear"  -> LClear(c)
     IN  /\ e.panic = ""
         /\ c' = r.s
         /\ (e.op \in {"put", "has", "remove"} => e.res = r.res)
         /\ (e.op = "get" => e.rv = r.res)
         /\ (IF e.op = "clear"
               THEN SeqSet(e.evs) = ClearEvs(c) /\ Len(e.evs) = CLen(c)
               ELSE e.evs = r.ev)
         /\ e.len = CLen(r.s)
         /\ e.size = CSize(r.s)
         /\ e.size <= r.s.limit

TSkip ==
  /\ l <= N
  /\ ~ENABLED TStep
  /\ Reject(l)
  /\ l' = NextNew(l)
  /\ c' = NewCache(1, TRUE)

TNext == TStep \/ TSkip
TSpec == TInit /\ [][TNext]_<<c, l>>
=============================================================================
