---------------------------- MODULE LRUHeapTrace ----------------------------
(***************************************************************************)
(* Trace validation against the implementation-shaped LRUHeap model with   *)
(* the as-is switches on (Known = {"F1","F2"}): accepts a recorded history *)
(* iff the real cache evicted exactly the victims that cache.go/lru.go     *)
(* over heapq.go *as written* prescribe.  Used to attribute rejections of  *)
(* LRUTrace to known finding F2.                                           *)
(***************************************************************************)
EXTENDS LRUHeap, TraceBase

VARIABLE h

TInit == TLCSet(1, 0) /\ l = 1 /\ h = HNew(1, TRUE)

TStep ==
  /\ l <= N
  /\ l' = l + 1
  /\ LET e == Trace[l]
         r == CASE e.op = "new"    -> [h |-> HNew(e.limit, e.unit), res |-> TRUE, ev |-> <<>>]
                [] e.op = "put"    -> HPut(h, e.k, e.v)
                [] e.op = "get"    -> HGet(h, e.k)
                [] e.op \in {"getn", "fill"} -> [h |-> h, res |-> FALSE, ev |-> <<"not modelled">>]
                [] e.op = "has"    -> HHas(h, e.k)
                [] e.op = "remove" -> HRemove(h, e.k)
                [] e.op = "clear"  -> HClear(h)
     IN  /\ e.panic = ""
         /\ h' = r.h
         /\ (e.op \in {"put", "has", "remove"} => e.res = r.res)
         /\ (e.op = "get" => e.rv = r.res)
         /\ e.evs = r.ev
         /\ e.len = r.h.count
         /\ e.size = r.h.size

TSkip ==
  /\ l <= N
  /\ ~ENABLED TStep
  /\ Reject(l)
  /\ l' = NextNew(l)
  /\ h' = HNew(1, TRUE)

TNext == TStep \/ TSkip
TSpec == TInit /\ [][TNext]_<<h, l>>
=============================================================================
