------------------------------- MODULE QuoteMC -------------------------------
(***************************************************************************)
(* For every string (and list of strings) in the space: the transcription  *)
(* of shell.go's quote()/Join yields a word that POSIX evaluation turns    *)
(* back into exactly the string with no special byte exposed, and that     *)
(* the reference tokenizer splits back into exactly the list.  Inputs are  *)
(* emitted for the real Quote/Join/Split.                                  *)
(***************************************************************************)
EXTENDS ShellLex, Json
CONSTANTS Alphabet, MaxLen, ListAlphabet, MaxItem, MaxItems
VARIABLES ss     \* a list of strings; a single string is the one-element list
Items == StrsUpTo(ListAlphabet, MaxItem)
RECURSIVE ListsUpTo(_)
ListsUpTo(n) == IF n = 0 THEN {<<>>} ELSE ListsUpTo(n - 1) \cup {Append(l, x) : l \in {t \in ListsUpTo(n - 1) : Len(t) = n - 1}, x \in Items}
Init == ss \in {<<x>> : x \in StrsUpTo(Alphabet, MaxLen)} \cup ListsUpTo(MaxItems) \cup {<<<<b>>>> : b \in 0..255}
Next == UNCHANGED ss
Spec == Init /\ [][Next]_ss

AlgQuoteOK == \A i \in DOMAIN ss : QuoteOK(ss[i], AlgQuote(ss[i]))
AlgJoinOK ==
  LET j == AlgJoin(ss) r == Lex(j)
  IN  r.toks = ss /\ r.complete /\ Eval(j).words = ss /\ Eval(j).exposed = {}
\* the linear-time evaluation equals the defining one: on the quoting algorithm's outputs and on the raw strings
EvalFastOK ==
  /\ EvalF(AlgJoin(ss)) = Eval(AlgJoin(ss))
  /\ \A i \in DOMAIN ss : EvalF(ss[i]) = Eval(ss[i]) /\ EvalF(AlgQuote(ss[i])) = Eval(AlgQuote(ss[i]))
EmitInput == PrintT(ToJson([ss |-> ss]))
=============================================================================
