SPECIFICATION Spec
CONSTANTS
  Keys = {1,2}
  Sizes = {0,1,2,4}
  Limits = {3}
  Unit = FALSE
VIEW View
INVARIANTS AccountingOK PutOK EvictedAreGone
ACTION_CONSTRAINT Emit
CHECK_DEADLOCK FALSE
