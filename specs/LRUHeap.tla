------------------------------ MODULE LRUHeap ------------------------------
(***************************************************************************)
(* Implementation-shaped specification of cache.Cache over lruStore        *)
(* (cache.go, lru.go): the recency structure is a heapq.Queue of           *)
(* <<lastAccess, key>> ordered by the logical clock — Heap.tla, so the     *)
(* as-is switches F1/F2 apply — and Access is Remove(pos) followed by Add. *)
(* A state is [data, clock, val, size, count, limit, unit].  Operators     *)
(* return [h, res, ev] like those of LRU.tla.                              *)
(***************************************************************************)
EXTENDS Heap

HZeroV == <<0, 0>>
HNew(limit, unit) == [data |-> <<>>, clock |-> 0, val |-> <<>>, size |-> 0, count |-> 0, limit |-> limit, unit |-> unit]
HSizeOf(h, v) == IF h.unit THEN 1 ELSE v[2]
HPresent(h, k) == \E i \in 1..Len(h.data) : h.data[i][2] = k
PosOf(d, k) == CHOOSE i \in 0..(Len(d) - 1) : d[i + 1][2] = k
S(d) == [d |-> d, rep |-> <<>>]
Evt(h, k) == <<k, h.val[k][1], h.val[k][2]>>

\* lruStore methods
StAccess(h, k) ==
  LET r == PopAt(1, S(h.data), PosOf(h.data, k))
      a == AddTo(1, S(r.s.d), <<h.clock + 1, k>>)
  IN  [h EXCEPT !.clock = h.clock + 1, !.data = a.s.d]
StStore(h, k, v) ==
  [h EXCEPT !.clock = h.clock + 1, !.data = AddTo(1, S(h.data), <<h.clock + 1, k>>).s.d, !.val = (k :> v) @@ h.val]
StRemove(h, k) == [h EXCEPT !.data = PopAt(1, S(h.data), PosOf(h.data, k)).s.d]
StEvictKey(h) == h.data[1][2]
StEvict(h) == [h EXCEPT !.data = PopAt(1, S(h.data), 0).s.d]

RECURSIVE EvictLoop(_, _, _)     \* for newSize > limit { Evict; onEvict; count--; newSize -= sizeOf }
EvictLoop(h, newSize, ev) ==
  IF newSize > h.limit /\ h.data # <<>>
    THEN LET k == StEvictKey(h)
         IN  EvictLoop([StEvict(h) EXCEPT !.count = h.count - 1], newSize - HSizeOf(h, h.val[k]), Append(ev, Evt(h, k)))
    ELSE [h |-> h, newSize |-> newSize, ev |-> ev]

HPut(h, k, v) ==
  IF HSizeOf(h, v) > h.limit THEN [h |-> h, res |-> FALSE, ev |-> <<>>]
  ELSE LET pre == HPresent(h, k)
           h0 == IF pre THEN [StRemove(h, k) EXCEPT !.size = h.size - HSizeOf(h, h.val[k]), !.count = h.count - 1] ELSE h
           ev0 == IF pre THEN <<Evt(h, k)>> ELSE <<>>
           r == EvictLoop(h0, h0.size + HSizeOf(h, v), ev0)
           h1 == [StStore(r.h, k, v) EXCEPT !.size = r.newSize, !.count = r.h.count + 1]
       IN  [h |-> h1, res |-> TRUE, ev |-> r.ev]

HGet(h, k) ==
  IF HPresent(h, k) THEN [h |-> StAccess(h, k), res |-> <<h.val[k][1], h.val[k][2], 1>>, ev |-> <<>>]
  ELSE [h |-> h, res |-> <<0, 0, 0>>, ev |-> <<>>]
HHas(h, k) == [h |-> h, res |-> HPresent(h, k), ev |-> <<>>]
HRemove(h, k) ==
  IF HPresent(h, k)
    THEN [h |-> [StRemove(h, k) EXCEPT !.size = h.size - HSizeOf(h, h.val[k]), !.count = h.count - 1],
          res |-> TRUE, ev |-> <<Evt(h, k)>>]
    ELSE [h |-> h, res |-> FALSE, ev |-> <<>>]

RECURSIVE ClearLoop(_, _)
ClearLoop(h, ev) ==
  IF h.count > 0 /\ h.data # <<>>
    THEN LET k == StEvictKey(h)
         IN  ClearLoop([StEvict(h) EXCEPT !.count = h.count - 1, !.size = h.size - HSizeOf(h, h.val[k])], Append(ev, Evt(h, k)))
    ELSE [h |-> h, res |-> TRUE, ev |-> ev]
HClear(h) == ClearLoop(h, <<>>)
=============================================================================
