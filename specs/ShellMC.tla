------------------------------- MODULE ShellMC -------------------------------
(***************************************************************************)
(* The implementation's transition table against the mode-based reference, *)
(* for EVERY string over the alphabet up to the length bound (the state is *)
(* the string consumed so far with both lexer configurations; each step    *)
(* appends one byte).  Every string is also emitted as an input for the    *)
(* real Split/Scanner.                                                     *)
(***************************************************************************)
EXTENDS ShellLex, Json
CONSTANTS Alphabet, MaxLen
VARIABLES s, rc, tc
vars == <<s, rc, tc>>
Init == s = <<>> /\ rc = Ref0 /\ tc = Tab0
Next == /\ Len(s) < MaxLen
        /\ \E b \in Alphabet :
             /\ s' = Append(s, b)
             /\ rc' = RefStep(rc, b, Len(s) + 1)
             /\ tc' = TabStep(tc, b, Len(s) + 1)
Spec == Init /\ [][Next]_vars

\* same delivered tokens and offsets, same pending word, same outcome if input ended here
TableEqualsReference ==
  /\ tc.toks = rc.toks /\ tc.ends = rc.ends /\ tc.cur = rc.cur
  /\ (tc.st # "stBreak") = RefPending(rc)
  /\ (tc.st \in {"stBreak", "stWord"}) = RefComplete(rc)
IncrementalEqualsBatch == Lex(s) = TabLex(s)
EmitInput == PrintT(ToJson([s |-> s]))
=============================================================================
