----------------------------- MODULE DiffUnify -----------------------------
(***************************************************************************)
(* Transcription of mdiff.AddContext (findContext) and of the repaired     *)
(* mdiff.UnifyChunks, model-checked against the stage conditions of        *)
(* DiffChunks for every pair of line sequences in the space and every      *)
(* context size.  With AsIs = TRUE the overlap trimming is the one the     *)
(* code had before the fix (F4): TLC refutes it.                           *)
(***************************************************************************)
EXTENDS DiffChunks, Json
CONSTANTS Sym, MaxLen, Sym2, MaxLen2, MaxN, AsIs
VARIABLES lhs, rhs

Space == (SeqsUpTo(Sym, MaxLen) \X SeqsUpTo(Sym, MaxLen)) \cup (SeqsUpTo(Sym2, MaxLen2) \X SeqsUpTo(Sym2, MaxLen2))
Init == \E p \in Space : lhs = p[1] /\ rhs = p[2]
Next == UNCHANGED <<lhs, rhs>>
Spec == Init /\ [][Next]_<<lhs, rhs>>

(* findContext: positional comparison of Left and Right around the chunk *)
RECURSIVE PreLen(_, _, _, _, _)
PreLen(L, R, c, n, k) ==
  IF k < n /\ c.ls - (k + 1) >= 1 /\ c.rs - (k + 1) >= 1 /\ L[c.ls - (k + 1)] = R[c.rs - (k + 1)]
    THEN PreLen(L, R, c, n, k + 1) ELSE k
RECURSIVE PostLen(_, _, _, _, _)
PostLen(L, R, c, n, k) ==
  IF k < n /\ c.le + k <= Len(L) /\ c.re + k <= Len(R) /\ L[c.le + k] = R[c.re + k]
    THEN PostLen(L, R, c, n, k + 1) ELSE k
AddCtx(L, R, c, n) ==
  LET pre == PreLen(L, R, c, n, 0) post == PostLen(L, R, c, n, 0)
      e0 == IF pre > 0 THEN <<<<"=", SubSeq(L, c.ls - pre, c.ls - 1), <<>>>>>> ELSE <<>>
      e1 == IF post > 0 THEN <<<<"=", SubSeq(L, c.le, c.le + post - 1), <<>>>>>> ELSE <<>>
  IN  [ls |-> c.ls - pre, rs |-> c.rs - pre, le |-> c.le + post, re |-> c.re + post, edits |-> e0 \o c.edits \o e1]
AddContext(L, R, cs, n) == IF n <= 0 THEN cs ELSE [i \in DOMAIN cs |-> AddCtx(L, R, cs[i], n)]

(* UnifyChunks, one merge step: `last` is the last merged chunk, c the next one *)
Min2(a, b) == IF a < b THEN a ELSE b
DropLast(q) == SubSeq(q, 1, Len(q) - 1)
TrimEnd(last, cut) ==      \* take cut lines off the trailing context edit of last
  LET e == last.edits[Len(last.edits)]
  IN  IF cut >= Len(e[2]) THEN [last EXCEPT !.edits = DropLast(@), !.le = @ - cut, !.re = @ - cut]
      ELSE [last EXCEPT !.edits = DropLast(@) \o <<<<"=", SubSeq(e[2], 1, Len(e[2]) - cut), <<>>>>>>, !.le = @ - cut, !.re = @ - cut]
TrimStart(c, cut) ==       \* take cut lines off the leading context edit of c
  LET e == c.edits[1]
  IN  IF cut >= Len(e[2]) THEN [c EXCEPT !.edits = Tail(@), !.ls = @ + cut, !.rs = @ + cut]
      ELSE [c EXCEPT !.edits = <<<<"=", SubSeq(e[2], cut + 1, Len(e[2])), <<>>>>>> \o Tail(@), !.ls = @ + cut, !.rs = @ + cut]
IsEmit(es, k) == k >= 1 /\ k <= Len(es) /\ es[k][1] = "="

Merge(last0, c0) ==
  LET lap == last0.le - c0.ls
      \* overlap resolution
      endEmit == IsEmit(last0.edits, Len(last0.edits))
      cut1 == IF lap > 0 /\ endEmit
                THEN (IF AsIs THEN lap ELSE Min2(lap, Len(last0.edits[Len(last0.edits)][2])))
                ELSE 0
      last1 == IF cut1 > 0 THEN TrimEnd(last0, cut1) ELSE last0
      rest == IF AsIs THEN (IF endEmit THEN 0 ELSE lap) ELSE lap - cut1
      c1 == IF lap > 0 /\ rest > 0 /\ IsEmit(c0.edits, 1) THEN TrimStart(c0, rest) ELSE c0
      \* fuse adjacent context edits
      fuse == IsEmit(last1.edits, Len(last1.edits)) /\ IsEmit(c1.edits, 1)
      le1 == last1.edits[Len(last1.edits)]
      last2 == IF fuse THEN [last1 EXCEPT !.edits = DropLast(@) \o <<<<"=", le1[2] \o c1.edits[1][2], <<>>>>>>] ELSE last1
      c2 == IF fuse THEN [c1 EXCEPT !.edits = Tail(@)] ELSE c1
  IN  [ls |-> last2.ls, rs |-> last2.rs, le |-> c0.le, re |-> c0.re, edits |-> last2.edits \o c2.edits,
       panic |-> lap > 0 /\ c1.ls < last1.le]
RECURSIVE UnifyGo(_, _, _)
UnifyGo(cs, i, merged) ==
  IF i > Len(cs) THEN merged
  ELSE LET last == merged[Len(merged)] c == cs[i]
       IN  IF c.ls > last.le THEN UnifyGo(cs, i + 1, Append(merged, c))
           ELSE LET m == Merge(last, c)
                IN  UnifyGo(cs, i + 1, Append(DropLast(merged), [ls |-> m.ls, le |-> m.le, rs |-> m.rs, re |-> m.re, edits |-> m.edits]))
Unify(cs) == IF cs = <<>> THEN <<>> ELSE UnifyGo(cs, 2, <<cs[1]>>)

New == ModelNew(AlgEditScript(lhs, rhs))
ContextOK == \A n \in 0..MaxN : AfterContext(lhs, rhs, New, AddContext(lhs, rhs, New, n), n)
UnifyOK == \A n \in 0..MaxN : AfterUnify(lhs, rhs, New, Unify(AddContext(lhs, rhs, New, n)), n)
=============================================================================
