------------------------------ MODULE CVMTrace ------------------------------
(***************************************************************************)
(* Trace validation for C19.  With the overlay hooks every Add of the real *)
(* counter must be a legal CVM step from the previous sampling state to    *)
(* the logged one (buffer and k read through the hooks); where the random  *)
(* words were scripted, the coin decides the branch and the mask words     *)
(* decide how many elements survive each pass.  The public observations    *)
(* must agree: Len = |buf|, Count = Len * 2^k, Len <= size, k never        *)
(* decreases before Reset, and below capacity the count is exact.          *)
(* Without hooks (fallback) only the public part is checked.               *)
(***************************************************************************)
EXTENDS CVM, TraceBase

VARIABLE s      \* [buf, k, cap, seen] ; in the hook-free fallback buf is unknown ({}), k = last known

SeqSet(q) == {q[i] : i \in DOMAIN q}
TInit == TLCSet(1, 0) /\ l = 1 /\ s = New(1)

RECURSIVE PopBits(_, _)       \* number of set bits among the low m bits of w (w < 2^30)
PopBits(w, m) == IF m = 0 \/ w = 0 THEN 0 ELSE (w % 2) + PopBits(w \div 2, m - 1)
WordPop(w, m) == IF w = 0 - 1 THEN m ELSE IF w = 0 - 2 THEN m - 1 ELSE PopBits(w, IF m > 30 THEN 30 ELSE m)
\* survivors of one pass over n elements using words ws[i..]: <<survivors, next index>>
RECURSIVE PassPop(_, _, _)
PassPop(ws, i, n) ==
  IF n <= 0 THEN <<0, i>>
  ELSE IF i > Len(ws) THEN <<0 - 1000, i>>                  \* script too short: no constraint
  ELSE LET m == IF n > 64 THEN 64 ELSE n
           r == PassPop(ws, i + 1, n - m)
       IN  <<WordPop(ws[i], m) + r[1], r[2]>>
\* sizes after each scripted pass, starting from n elements
RECURSIVE Passes(_, _, _)
Passes(ws, i, n) ==
  IF i > Len(ws) THEN <<>>
  ELSE LET p == PassPop(ws, i, n) IN IF p[1] < 0 THEN <<>> ELSE <<p[1]>> \o Passes(ws, p[2], p[1])

LegalAdd(a, v, t, e) ==
  LET b1 == a.buf \cup {v}
      failCase == a.k > 0 /\ t.buf = a.buf \ {v} /\ t.k = a.k
      keepCase == IF Full(a, b1)
                    THEN t.buf \subseteq b1 /\ t.k > a.k /\ t.k - a.k <= 64    \* one or more halving passes
                    ELSE t.buf = b1 /\ t.k = a.k
      sizes == Passes(e.masks, 1, Cardinality(b1))
  IN  /\ failCase \/ keepCase
      /\ (e.scripted = 1 /\ e.coinw = 1 => failCase)
      /\ (e.scripted = 1 /\ e.coinw = 0 => keepCase)
      /\ (e.scripted = 1 /\ a.k = 0 => keepCase)
      /\ (e.scripted = 1 /\ keepCase /\ Full(a, b1) /\ sizes # <<>> =>
            Len(sizes) = t.k - a.k /\ sizes[Len(sizes)] = Cardinality(t.buf))
      /\ (e.scripted = 1 /\ keepCase /\ ~Full(a, b1) => e.masks = <<>>)

PublicOK(e, t) ==
  /\ e.len <= t.cap                                                   \* never over the buffer size
  /\ (Cardinality(t.seen) < t.cap => e.len = Cardinality(t.seen) /\ e.count = e.len)   \* exact regime

TStep ==
  /\ l <= N
  /\ l' = l + 1
  /\ LET e == Trace[l]
     IN  /\ e.panic = ""
         /\ IF e.hook = 1
              THEN LET t == IF e.op = "new" THEN New(e.size)
                            ELSE [buf |-> SeqSet(e.buf), k |-> e.k, cap |-> s.cap,
                                  seen |-> IF e.op = "reset" THEN {} ELSE s.seen \cup {e.v}]
                   IN  /\ e.bufknown = 1
                       /\ CASE e.op = "new" -> e.k = 0 /\ e.buf = <<>>
                            [] e.op = "reset" -> t.buf = {} /\ t.k = 0
                            [] e.op = "add" -> LegalAdd(s, e.v, t, e)
                            [] OTHER -> FALSE
                       /\ s' = t
                       /\ e.len = Cardinality(t.buf)
                       /\ (e.k <= 20 /\ e.len < 1000 => e.count = e.len * Pow2(e.k))
                       /\ PublicOK(e, t)
              ELSE \* fallback: k is the exponent of Count / Len when Len > 0
                   LET seen2 == IF e.op \in {"new", "reset"} THEN {} ELSE s.seen \cup {e.v, IF e.v % 3 = 0 /\ e.lite = 1 THEN e.v - 1 ELSE e.v}
                       cap2 == IF e.op = "new" THEN e.size ELSE s.cap
                       ks == {j \in 0..18 : e.len * Pow2(j) = e.count}
                       k2 == IF e.len = 0 \/ ks = {} THEN s.k ELSE CHOOSE j \in ks : TRUE
                   IN  /\ (e.len > 0 /\ e.count > 0 => ks # {})          \* Count is Len times a power of two
                       /\ (e.len = 0 => e.count = 0)
                       /\ (e.op \in {"add", "addq"} => k2 >= s.k)             \* which does not decrease
                       /\ s' = [buf |-> {}, k |-> IF e.op \in {"new", "reset"} THEN 0 ELSE k2, cap |-> cap2, seen |-> seen2]
                       /\ PublicOK(e, [buf |-> {}, k |-> k2, cap |-> cap2, seen |-> seen2])

TSkip ==
  /\ l <= N
  /\ ~ENABLED TStep
  /\ Reject(l)
  /\ l' = NextNew(l)
  /\ s' = New(1)

TNext == TStep \/ TSkip
TSpec == TInit /\ [][TNext]_<<s, l>>
=============================================================================
