SPECIFICATION Spec
CONSTANTS
  Alphabet = {32, 10, 92, 39, 34, 97}
  MaxLen = 5
INVARIANTS TableEqualsReference IncrementalEqualsBatch EmitInput
CHECK_DEADLOCK FALSE
