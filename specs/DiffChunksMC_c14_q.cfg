SPECIFICATION Spec
CONSTANTS
  Sym = {1, 2, 3}
  MaxLen = 2
  Sym2 = {1, 2}
  MaxLen2 = 4
  MaxN = 3
INVARIANTS NewOK EmitInput
CHECK_DEADLOCK FALSE
