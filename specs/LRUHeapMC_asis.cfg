SPECIFICATION Spec
CONSTANTS
  Known = {"F1","F2"}
  Limit = 7
  NKeys = 8
VIEW RankView
INVARIANTS RefinesLRU SameContents
CHECK_DEADLOCK FALSE
