------------------------------- MODULE CVMInd -------------------------------
(***************************************************************************)
(* Inductive invariant of the distinct.Counter design (C19), for Apalache. *)
(* CVMMC lets TLC explore every coin outcome for streams of at most        *)
(* MaxAdds values; here the same properties are shown for streams of ANY   *)
(* length, because they are inductive over CVM.tla's own step relation     *)
(* (AddOutcomes / Reset, Known = {}):                                      *)
(*    Init => IndInv                     (--init=Init    --length=0)       *)
(*    IndInv /\ Next => IndInv'          (--init=IndInit --length=1)       *)
(* where IndInit is *every* type-correct state satisfying IndInv, not only *)
(* the reachable ones.  The value universe and the buffer size are bounded *)
(* (Vals = 1..5, cap in 1..5); k is an unbounded natural.  With            *)
(* Known = {"F8"} (one halving pass, the code as it was) the invariant is  *)
(* not inductive: Apalache must report the violation (non-vacuity).        *)
(*                                                                         *)
(*   apalache-mc check --cinit=CInit --init=Init    --inv=IndInv --length=0 *)
(*   apalache-mc check --cinit=CInit --init=IndInit --inv=IndInv --length=1 *)
(*   apalache-mc check --cinit=CInit --init=IndInit --inv=KMonotone --length=1 *)
(*   apalache-mc check --cinit=CInitF8 --init=IndInit --inv=IndInv --length=1  (Error) *)
(***************************************************************************)
EXTENDS CVM
CONSTANTS
  \* @type: Set(Int);
  Vals,
  \* @type: Int;
  MaxCap
VARIABLE
  \* @type: { buf: Set(Int), k: Int, cap: Int, seen: Set(Int) };
  s

CInit == Known = {} /\ Vals = 1..5 /\ MaxCap = 5
CInitF8 == Known = {"F8"} /\ Vals = 1..5 /\ MaxCap = 5

Init == \E c \in 1..MaxCap : s = New(c)
Next == (\E v \in Vals : \E t \in AddOutcomes(s, v) : s' = t) \/ s' = Reset(s)

TypeOK == s.buf \in SUBSET Vals /\ s.seen \in SUBSET Vals /\ s.cap \in 1..MaxCap /\ s.k \in Nat
\* Len < size after every call (hence Len <= size); exact regime; buffer drawn from the stream
IndInv == TypeOK /\ Cardinality(s.buf) < s.cap /\ ExactRegime(s) /\ BufFromSeen(s)
IndInit == s \in [buf: SUBSET Vals, seen: SUBSET Vals, cap: 1..MaxCap, k: Nat] /\ IndInv
\* action invariant: k (hence Count/Len = 2^k) never decreases except by Reset
KMonotone == s'.k >= s.k \/ s' = Reset(s)
=============================================================================
