SPECIFICATION Spec
CONSTANTS
  Known = {"F8"}
  Caps = {2, 3}
  Vals = {1, 2, 3, 4}
  MaxAdds = 5
VIEW View
INVARIANTS BoundedInv ExactInv FromSeenInv
PROPERTIES KMonotone

CHECK_DEADLOCK FALSE
