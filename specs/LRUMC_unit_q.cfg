SPECIFICATION Spec
CONSTANTS
  Keys = {1,2,3}
  Sizes = {1}
  Limits = {2}
  Unit = TRUE
VIEW View
INVARIANTS AccountingOK PutOK EvictedAreGone
ACTION_CONSTRAINT Emit
CHECK_DEADLOCK FALSE
