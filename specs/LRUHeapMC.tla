----------------------------- MODULE LRUHeapMC -----------------------------
(***************************************************************************)
(* LRUHeap in lock-step with the abstract LRU, unit sizes.  The defect F2  *)
(* needs at least 7 live entries and a long history, far beyond a naive    *)
(* search over keys and clocks; the VIEW therefore replaces clocks by      *)
(* their ranks and forgets key names: a state is the permutation of ranks  *)
(* in the heap array (sum of n! for n <= Limit).  With Known = {} TLC      *)
(* shows that the heap-based store refines LRU (every victim is the least  *)
(* recently used entry); with Known = {"F2"} its breadth-first search      *)
(* returns a SHORTEST history whose eviction is wrong, printed as a JSON   *)
(* operation path that bin/check replays on the real cache.                *)
(***************************************************************************)
EXTENDS LRUHeap, LRU, Json

CONSTANTS Limit, NKeys

VARIABLES h, c, ok, path
vars == <<h, c, ok, path>>

Op(name, k) == [op |-> name, k |-> k, v |-> <<1, 1>>, limit |-> Limit, unit |-> TRUE]

Init == /\ h = HNew(Limit, TRUE) /\ c = NewCache(Limit, TRUE) /\ ok = TRUE
        /\ path = <<[op |-> "new", k |-> 0, v |-> ZeroV, limit |-> Limit, unit |-> TRUE]>>

Do(hr, ar, o) ==
  /\ h' = hr.h /\ c' = ar.s
  /\ ok' = (hr.res = ar.res /\ hr.ev = ar.ev)
  /\ path' = Append(path, o)

\* keys: present ones, plus one representative absent key (the least unused)
Present1 == {h.data[i][2] : i \in 1..Len(h.data)}
FreshKey == CHOOSE k \in 1..NKeys : k \notin Present1 /\ \A j \in 1..NKeys : j \notin Present1 => k <= j

Next ==
  /\ ok
  /\ \/ (Cardinality(Present1) < NKeys /\ Do(HPut(h, FreshKey, <<1, 1>>), LPut(c, FreshKey, <<1, 1>>), Op("put", FreshKey)))
     \/ \E k \in Present1 : Do(HGet(h, k), LGet(c, k), Op("get", k))
     \/ \E k \in Present1 : Do(HRemove(h, k), LRemove(c, k), Op("remove", k))

Spec == Init /\ [][Next]_vars

\* every result and every eviction sequence equals the abstract LRU's
RefinesLRU == ok \/ (PrintT(ToJson(path)) /\ FALSE)
SameContents == {h.data[i][2] : i \in 1..Len(h.data)} = {c.order[i] : i \in DOMAIN c.order}

Emit == PrintT(ToJson(path'))

\* rank of each clock value among the live ones, in array order
RankView == <<[i \in 1..Len(h.data) |-> Cardinality({j \in 1..Len(h.data) : h.data[j][1] <= h.data[i][1]})], ok>>
=============================================================================
