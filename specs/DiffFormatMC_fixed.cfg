SPECIFICATION Spec
CONSTANTS
  Sym = {1, 2, 3}
  MaxLen = 3
  Sym2 = {1, 2}
  MaxLen2 = 5
  WriterConv = {}
  Conv = {}
INVARIANTS UnifiedOK NormalOK ContextOK
CHECK_DEADLOCK FALSE
