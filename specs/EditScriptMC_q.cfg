SPECIFICATION Spec
CONSTANTS
  Sym = {1, 2, 3}
  MaxLen = 4
  Sym2 = {1, 2}
  MaxLen2 = 5
INVARIANTS AlgScriptOK AlgLcsOK LcsSymmetric EmitInput
CHECK_DEADLOCK FALSE
