----------------------------- MODULE Scapegoat -----------------------------
(***************************************************************************)
(* Implementation-shaped specification of stree.Tree (C01, C02): a binary  *)
(* search tree of nested records with the scapegoat insertion (depth limit,*)
(* goat search on the unwind), the Day-Stout-Warren rebuild (tree -> vine  *)
(* -> tree by left rotations), two-child removal by popping the minimum of *)
(* the right subtree and the shrink-triggered whole-tree rebuild — one     *)
(* operator per routine of stree.go / node.go, one action per public call. *)
(* It runs in lock-step with the abstract SortedSet; TLC checks the        *)
(* refinement and the balance bound in every reachable state.              *)
(***************************************************************************)
EXTENDS SortedSet, Json

CONSTANTS Beta,      \* balance factor of this run (0..1000)
          Classes,   \* key classes used by Add/Replace/Remove
          Tags,      \* tags carried by inserted keys
          Rev        \* BOOLEAN: reversed comparator

VARIABLES root, size, max,   \* the tree: root node, cached size, max size since rebuild
          abs,               \* the abstract sorted set (lock-step)
          res, ares,         \* result of the last call: implementation / abstract
          path               \* history (outside the VIEW)

svars == <<root, size, max, abs, res, ares, path>>

NIL == [nil |-> TRUE]
TPANIC == [panic |-> TRUE]
VPANIC == <<[panic |-> TRUE]>>
Node(k, l, r) == [k |-> k, l |-> l, r |-> r]

Less(a, b) == Before(Rev, a[1], b[1])      \* compare(a, b) < 0
Equiv(a, b) == a[1] = b[1]

RECURSIVE Size(_)
Size(t) == IF t = NIL THEN 0 ELSE 1 + Size(t.l) + Size(t.r)

RECURSIVE Height(_)   \* edges; -1 for the empty tree
Height(t) == IF t = NIL THEN 0 - 1
             ELSE LET a == Height(t.l) b == Height(t.r) IN 1 + (IF a > b THEN a ELSE b)

RECURSIVE Flat(_)     \* in-order key sequence
Flat(t) == IF t = NIL THEN <<>> ELSE Flat(t.l) \o <<t.k>> \o Flat(t.r)

(* limitFunc: floor(log_{2000/(1000+beta)} n), or n+1 when beta = 1000.    *)
MaxN == Cardinality(Classes) + 2
LimitF[n \in 1..MaxN] == IF Beta = 1000 THEN n + 1 ELSE FloorLog(Beta, n)
Limit(n) == LimitF[n]

(* ---- Day-Stout-Warren ------------------------------------------------- *)
\* A vine is a sequence of [k, l]: nodes linked through their right pointers,
\* each still carrying a left subtree.
RECURSIVE TreeToVine(_)
TreeToVine(t) == [i \in 1..Len(Flat(t)) |-> [k |-> Flat(t)[i], l |-> NIL]]

RECURSIVE VineAsTree(_)
VineAsTree(v) == IF v = <<>> THEN NIL ELSE Node(v[1].k, v[1].l, VineAsTree(Tail(v)))

\* rotateLeft(stub, count): count left-rotations walking down the chain.
\* VPANIC models the nil dereference when count exceeds the chain.
RECURSIVE RotGo(_, _, _)
RotGo(v, pos, count) ==      \* pos: index of `next` in the chain (0 = stub)
  IF count = 0 THEN v
  ELSE IF pos + 2 > Len(v) THEN VPANIC
  ELSE LET C == v[pos + 1]
           R == v[pos + 2]
           R2 == [k |-> R.k, l |-> Node(C.k, C.l, R.l)]
           v2 == SubSeq(v, 1, pos) \o <<R2>> \o SubSeq(v, pos + 3, Len(v))
       IN  RotGo(v2, pos + 1, count - 1)
RotateLeft(v, count) == IF v = VPANIC THEN v ELSE RotGo(v, 0, count)

RECURSIVE FullStep(_, _)
FullStep(step, count) == IF step <= count THEN FullStep(2 * step + 1, count) ELSE step \div 2

RECURSIVE Pack(_, _)
Pack(v, left) == IF left > 1 THEN Pack(RotateLeft(v, left \div 2), left \div 2) ELSE v

VineToTree(v, count) ==
  LET step == FullStep(1, count)
      w == Pack(RotateLeft(v, count - step), step)
  IN  IF w = VPANIC THEN TPANIC ELSE VineAsTree(w)

Rewrite(t, count) == VineToTree(TreeToVine(t), count)

RECURSIVE Extract(_)     \* balanced tree from a sorted key sequence
Extract(ks) ==
  IF ks = <<>> THEN NIL
  ELSE LET mid == (Len(ks) - 1) \div 2
       IN  Node(ks[mid + 1], Extract(SubSeq(ks, 1, mid)), Extract(SubSeq(ks, mid + 2, Len(ks))))

(* ---- insertion -------------------------------------------------------- *)
RECURSIVE Insert(_, _, _, _)
Insert(t, key, replace, limit) ==
  IF t = NIL
    THEN [t |-> Node(key, NIL, NIL), added |-> TRUE, size |-> IF limit < 0 THEN 1 ELSE 0, height |-> 0]
  ELSE IF Equiv(key, t.k)
    THEN [t |-> IF replace THEN [t EXCEPT !.k = key] ELSE t, added |-> FALSE, size |-> 0, height |-> 0]
  ELSE
    LET left == Less(key, t.k)
        sub == Insert(IF left THEN t.l ELSE t.r, key, replace, limit - 1)
        t1 == IF left THEN [t EXCEPT !.l = sub.t] ELSE [t EXCEPT !.r = sub.t]
        sib == IF left THEN t.r ELSE t.l
        h == sub.height + 1
    IN  IF sub.size > 0
          THEN LET rootSize == Size(sib) + 1 + sub.size
               IN  IF h <= Limit(rootSize)
                     THEN [t |-> t1, added |-> sub.added, size |-> rootSize, height |-> h]
                     ELSE [t |-> Rewrite(t1, rootSize), added |-> sub.added, size |-> 0, height |-> h]
          ELSE [t |-> t1, added |-> sub.added, size |-> 0, height |-> h]

(* ---- removal ---------------------------------------------------------- *)
RECURSIVE DelMin(_)      \* remove the leftmost node: [t, k]
DelMin(t) == IF t.l = NIL THEN [t |-> t.r, k |-> t.k]
             ELSE LET d == DelMin(t.l) IN [t |-> [t EXCEPT !.l = d.t], k |-> d.k]

RECURSIVE RemoveNode(_, _)
RemoveNode(t, key) ==
  IF t = NIL THEN [t |-> NIL, ok |-> FALSE]
  ELSE IF Equiv(key, t.k) THEN
         IF t.l = NIL THEN [t |-> t.r, ok |-> TRUE]
         ELSE IF t.r = NIL THEN [t |-> t.l, ok |-> TRUE]
         ELSE LET d == DelMin(t.r) IN [t |-> Node(d.k, t.l, d.t), ok |-> TRUE]   \* popMinRight
  ELSE IF Less(key, t.k)
         THEN LET d == RemoveNode(t.l, key) IN [t |-> [t EXCEPT !.l = d.t], ok |-> d.ok]
         ELSE LET d == RemoveNode(t.r, key) IN [t |-> [t EXCEPT !.r = d.t], ok |-> d.ok]

(* ---- actions ----------------------------------------------------------- *)
OpRec(op, k, keys) == [op |-> op, t |-> 1, t2 |-> 0, beta |-> Beta, rev |-> Rev, k |-> k, keys |-> keys]

\* New(beta, cmp, keys...): sorted, de-duplicated, extracted.  Initial states:
\* the empty tree and every tree built from a subset of the classes.
SInit ==
  \E D \in SUBSET Classes :
    LET tg == CHOOSE g \in Tags : TRUE
        a == [m |-> [c \in D |-> tg], P |-> Cardinality(D)]
        ks == Inorder(a, Rev)
    IN  /\ root = Extract(ks)
        /\ size = Len(ks) /\ max = Len(ks)
        /\ abs = a
        /\ res = TRUE /\ ares = TRUE
        /\ path = <<OpRec("new", ZeroKey, ks)>>

DoInsert(key, replace, name) ==
  LET r == Insert(root, key, replace, Limit(size + 1))
      a == IF replace THEN SReplace(abs, key) ELSE SAdd(abs, key)
  IN  /\ root' = r.t
      /\ size' = IF r.added THEN size + 1 ELSE size
      /\ max' = IF r.added /\ size + 1 > max THEN size + 1 ELSE max
      /\ res' = r.added
      /\ abs' = a.s /\ ares' = a.res
      /\ path' = Append(path, OpRec(name, key, <<>>))

SAddAct(key) == DoInsert(key, FALSE, "add")
SReplaceAct(key) == DoInsert(key, TRUE, "replace")

SRemoveAct(key) ==
  LET d == RemoveNode(root, key)
      a == SRemove(abs, key)
      sz == size - 1
      shrink == d.ok /\ sz < (max * Beta + 1000) \div 2000
  IN  /\ root' = IF shrink THEN Rewrite(d.t, sz) ELSE d.t
      /\ size' = IF d.ok THEN sz ELSE size
      /\ max' = IF shrink THEN sz ELSE max
      /\ res' = d.ok
      /\ abs' = a.s /\ ares' = a.res
      /\ path' = Append(path, OpRec("remove", key, <<>>))

SClearAct ==
  /\ root' = NIL /\ size' = 0 /\ max' = 0 /\ res' = TRUE
  /\ abs' = EmptySet /\ ares' = TRUE
  /\ path' = Append(path, OpRec("clear", ZeroKey, <<>>))

SNext ==
  \/ \E c \in Classes, g \in Tags : SAddAct(<<c, g>>) \/ SReplaceAct(<<c, g>>)
  \/ \E c \in Classes : SRemoveAct(<<c, 0>>)
  \/ SClearAct

SSpec == SInit /\ [][SNext]_svars

(* ---- invariants -------------------------------------------------------- *)
NoPanic == root # TPANIC

RECURSIVE Ascending(_)
Ascending(ks) == \A i \in 1..(Len(ks) - 1) : Less(ks[i], ks[i + 1])

IsBST == Ascending(Flat(root))
SizeOK == size = Size(root) /\ size <= max

\* the sorting definition of the listing agrees with the declarative one
InorderAgrees ==
  /\ Inorder(abs, Rev) = InorderDecl(abs, Rev)
  /\ \A c \in DOMAIN abs.m \cup {0} : InorderAfter(abs, Rev, c) = InorderAfterDecl(abs, Rev, c)

\* refinement: same contents (with representatives), same answers
Refines ==
  /\ Flat(root) = Inorder(abs, Rev)
  /\ res = ares
  /\ size = SLen(abs)

\* C02 in every reachable state (P is the abstract history variable; the
\* code's max is reset by the shrink rebuild and may be smaller than P)
Balanced == DepthOK(Beta, Height(root), abs.P)

\* New builds a tree of minimum height
ASSUME ExtractMinimal ==
  \A n \in 1..(2 * Cardinality(Classes)) :
    Height(Extract([i \in 1..n |-> <<i, 0>>])) = FloorLog2(n)

ShapeView == <<root, size, max>>
TagView == <<root, size, max, abs>>
Emit == PrintT(ToJson(path'))
=============================================================================
