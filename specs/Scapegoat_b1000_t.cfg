SPECIFICATION SSpec
CONSTANTS
  Beta = 1000
  Classes = {1, 2, 3, 4, 5, 6, 7}
  Tags = {1}
  Rev = FALSE
VIEW ShapeView
INVARIANTS NoPanic IsBST SizeOK Refines Balanced InorderAgrees
ACTION_CONSTRAINT Emit
CHECK_DEADLOCK FALSE
