SPECIFICATION Spec
CONSTANTS
  MaxLen = 4
  Vals = {1,2}
  Curs = {1,2}
  Known = {}
VIEW View
INVARIANTS DistinctIds LinkRefines CheckValidDetectsStale StaleRefuses NeverHangs
ACTION_CONSTRAINT Emit
CHECK_DEADLOCK FALSE
