------------------------------ MODULE ShellTrace ------------------------------
(***************************************************************************)
(* Record validation for C16: Split, and a Scanner fed through several     *)
(* reader fragmentations, against the reference tokenizer Lex; Rest()      *)
(* after k tokens must return exactly the unconsumed bytes.  The harness   *)
(* obtains its scanners in several lifecycle states (fresh; used on other  *)
(* input -- mid-token, at end of input, after Rest, built on a nil reader   *)
(* -- and then Reset): Reset(r) is specified as "becomes NewScanner(r)",   *)
(* so every observation below is the same function of e.s alone.           *)
(***************************************************************************)
EXTENDS ShellLex, TraceBase

TInit == TLCSet(1, 0) /\ l = 1

ScanOK(sc, s, L) ==
  /\ sc.toks = L.toks
  /\ sc.each = L.toks /\ sc.splitm = L.toks
  /\ sc.splitm2 = <<>>             \* a second Split on the exhausted scanner yields nothing
  /\ Len(sc.completes) = Len(L.toks)
  /\ \A i \in DOMAIN sc.completes :
       sc.completes[i] = (IF i = Len(L.toks) /\ L.ends[i] = Len(s) THEN L.complete ELSE TRUE)
  /\ sc.final = L.complete          \* Complete() once Next has returned false
  /\ sc.err = "EOF"
  /\ sc.again = FALSE               \* Next stays false after the end of input

TStep ==
  /\ l <= N
  /\ l' = l + 1
  /\ LET e == Trace[l]
         L == Lex(e.s)
     IN  /\ e.panic = ""
         /\ e.split.toks = L.toks /\ e.split.ok = L.complete
         /\ \A i \in DOMAIN e.scans : ScanOK(e.scans[i], e.s, L)
         /\ \A i \in DOMAIN e.rests :
              LET k == e.rests[i][1]
                  from == IF k = 0 THEN 0 ELSE IF k <= Len(L.ends) THEN L.ends[k] ELSE Len(e.s)
              IN  e.rests[i][2] = SubSeq(e.s, from + 1, Len(e.s))

TSkip == l <= N /\ ~ENABLED TStep /\ Reject(l) /\ l' = l + 1
TNext == TStep \/ TSkip
TSpec == TInit /\ [][TNext]_<<l>>
=============================================================================
