-------------------------------- MODULE Bytes --------------------------------
(***************************************************************************)
(* Specification of the byte and string helpers (C20).                     *)
(*  mbits: LeadingZeroes / TrailingZeroes by the byte-by-byte definition;  *)
(*         Zero clears exactly the window of a memory image.  The          *)
(*         word-at-a-time algorithms of mbits.go are transcribed with the  *)
(*         set of byte offsets they touch, to show they stay in bounds.    *)
(*  mstr : Trunc's postconditions (prefix, length, UTF-8 validity, slack); *)
(*         CompareNatural as a total preorder on a recorded table, zero    *)
(*         exactly for strings equal up to leading zeros of digit runs,    *)
(*         digit runs ordered by value.                                    *)
(* Byte strings are sequences of integers 0..255.                          *)
(***************************************************************************)
EXTENDS Integers, Sequences, FiniteSets, TLC

(* ---- mbits -------------------------------------------------------------- *)
RECURSIVE LZ(_, _)
LZ(d, i) == IF i > Len(d) \/ d[i] # 0 THEN 0 ELSE 1 + LZ(d, i + 1)
LeadingZ(d) == LZ(d, 1)
RECURSIVE TZ(_, _)
TZ(d, i) == IF i < 1 \/ d[i] # 0 THEN 0 ELSE 1 + TZ(d, i - 1)
TrailingZ(d) == TZ(d, Len(d))

\* Zero on a memory image: [mem, off, n] -> window mem[off+1 .. off+n]
ZeroOK(before, off, n, after, ret) ==
  /\ ret = n /\ Len(after) = Len(before)
  /\ \A i \in DOMAIN before :
       after[i] = (IF i > off /\ i <= off + n THEN 0 ELSE before[i])

\* transcription of mbits.go with the set of offsets (0-based) read; 8-byte words
Word(d, i) == {d[i + j] : j \in 1..8}                   \* bytes of the word at offset i (0-based)
WordIdx(i) == {i + j : j \in 0..7}
RECURSIVE AlgLZGo(_, _, _, _)
AlgLZGo(d, i, m, acc) ==
  IF i < m
    THEN IF Word(d, i) # {0}
           THEN LET RECURSIVE skip(_, _)
                    skip(j, a) == IF d[j + 1] = 0 THEN skip(j + 1, a \cup {j}) ELSE [r |-> j, acc |-> a \cup {j}]
                IN  skip(i, acc \cup WordIdx(i))
           ELSE AlgLZGo(d, i + 8, m, acc \cup WordIdx(i))
    ELSE LET RECURSIVE tail(_, _)
             tail(j, a) == IF j < Len(d) THEN (IF d[j + 1] = 0 THEN tail(j + 1, a \cup {j}) ELSE [r |-> j, acc |-> a \cup {j}])
                           ELSE [r |-> j, acc |-> a]
         IN  tail(i, acc)
AlgLZ(d) == AlgLZGo(d, 0, Len(d) - (Len(d) % 8), {})

RECURSIVE AlgTZGo(_, _, _, _, _)
AlgTZGo(d, i, m, nz, acc) ==
  IF i >= m
    THEN IF Word(d, i) # {0}
           THEN LET RECURSIVE back(_, _, _)
                    back(j, z, a) == IF d[j + 7 + 1] = 0 THEN back(j - 1, z + 1, a \cup {j + 7}) ELSE [r |-> z, acc |-> a \cup {j + 7}]
                IN  back(i, nz, acc \cup WordIdx(i))
           ELSE AlgTZGo(d, i - 8, m, nz + 8, acc \cup WordIdx(i))
    ELSE LET RECURSIVE tail(_, _, _)
             tail(j, z, a) == IF j >= 0 THEN (IF d[j + 1] = 0 THEN tail(j - 1, z + 1, a \cup {j}) ELSE [r |-> z, acc |-> a \cup {j}])
                              ELSE [r |-> z, acc |-> a]
         IN  tail(m - 1, nz, acc)
AlgTZ(d) == AlgTZGo(d, Len(d) - 8, Len(d) % 8, 0, {})

(* ---- UTF-8 ---------------------------------------------------------------- *)
Cont(b) == b >= 128 /\ b <= 191
RECURSIVE ValidFrom(_, _)
ValidFrom(s, i) ==
  IF i > Len(s) THEN TRUE
  ELSE LET b == s[i]
           has(k) == i + k <= Len(s)
       IN  IF b < 128 THEN ValidFrom(s, i + 1)
           ELSE IF b >= 194 /\ b <= 223 THEN has(1) /\ Cont(s[i + 1]) /\ ValidFrom(s, i + 2)
           ELSE IF b >= 224 /\ b <= 239
             THEN /\ has(2) /\ Cont(s[i + 1]) /\ Cont(s[i + 2])
                  /\ (b = 224 => s[i + 1] >= 160) /\ (b = 237 => s[i + 1] <= 159)
                  /\ ValidFrom(s, i + 3)
           ELSE IF b >= 240 /\ b <= 244
             THEN /\ has(3) /\ Cont(s[i + 1]) /\ Cont(s[i + 2]) /\ Cont(s[i + 3])
                  /\ (b = 240 => s[i + 1] >= 144) /\ (b = 244 => s[i + 1] <= 143)
                  /\ ValidFrom(s, i + 4)
           ELSE FALSE
ValidUTF8(s) == ValidFrom(s, 1)

TruncOK(s, n, out) ==
  /\ Len(out) <= Len(s) /\ out = SubSeq(s, 1, Len(out))          \* a prefix
  /\ Len(out) <= n
  /\ (n >= Len(s) => out = s)
  /\ (ValidUTF8(s) => ValidUTF8(out))
  \* at most one encoded character short of n.  "Encoded character" presupposes
  \* valid UTF-8; for arbitrary bytes (Trunc does not verify validity) the cut
  \* may only remove a trailing run of continuation bytes and one lead byte.
  /\ (Len(s) > n /\ ValidUTF8(s) => Len(out) >= n - 4)
  /\ (Len(s) > n /\ n >= 0 =>
        /\ \A i \in (Len(out) + 2)..n : Cont(s[i])
        /\ (Len(out) < n => s[Len(out) + 1] >= 128))

(* ---- CompareNatural ---------------------------------------------------------- *)
IsDigit(b) == b >= 48 /\ b <= 57
\* canonical form: every maximal digit run without its leading zeros (one 0 kept for a zero run)
RECURSIVE RunEnd(_, _)
RunEnd(s, i) == IF i <= Len(s) /\ IsDigit(s[i]) THEN RunEnd(s, i + 1) ELSE i     \* first index after the run
RECURSIVE StripZ(_)
StripZ(r) == IF Len(r) > 1 /\ r[1] = 48 THEN StripZ(Tail(r)) ELSE r
RECURSIVE Canon(_, _)
Canon(s, i) ==
  IF i > Len(s) THEN <<>>
  ELSE IF IsDigit(s[i]) THEN LET e == RunEnd(s, i) IN StripZ(SubSeq(s, i, e - 1)) \o Canon(s, e)
  ELSE <<s[i]>> \o Canon(s, i + 1)
CanonOf(s) == Canon(s, 1)
RECURSIVE Val(_)
Val(r) == IF r = <<>> THEN 0 ELSE Val(SubSeq(r, 1, Len(r) - 1)) * 10 + (r[Len(r)] - 48)

\* first position where the canonical forms differ, if both have a digit run there
\* the run values decide the order
Sign(x) == IF x < 0 THEN 0 - 1 ELSE IF x > 0 THEN 1 ELSE 0
RECURSIVE CommonLen(_, _, _)
CommonLen(a, b, i) == IF i <= Len(a) /\ i <= Len(b) /\ a[i] = b[i] THEN CommonLen(a, b, i + 1) ELSE i - 1
RECURSIVE RunStart(_, _)
RunStart(s, i) == IF i > 1 /\ IsDigit(s[i - 1]) THEN RunStart(s, i - 1) ELSE i
NumericOrderOK(a, b, c) ==
  \* if the canonical forms first differ inside (or at the start of) digit runs on both
  \* sides, the run with the larger value makes the larger string
  LET ca == CanonOf(a) cb == CanonOf(b)
      p == CommonLen(ca, cb, 1) + 1
  IN  (p <= Len(ca) /\ p <= Len(cb) /\ IsDigit(ca[p]) /\ IsDigit(cb[p])) =>
        LET sa == RunStart(ca, p) sb == RunStart(cb, p)
            va == Val(SubSeq(ca, sa, RunEnd(ca, p) - 1)) vb == Val(SubSeq(cb, sb, RunEnd(cb, p) - 1))
        IN  c = Sign(va - vb)

RECURSIVE StrsUpTo(_, _)
StrsUpTo(A, n) == IF n = 0 THEN {<<>>} ELSE StrsUpTo(A, n - 1) \cup {Append(s, x) : s \in {t \in StrsUpTo(A, n - 1) : Len(t) = n - 1}, x \in A}
=============================================================================
