----------------------------- MODULE CacheConc -----------------------------
(***************************************************************************)
(* Design-level model of cache.Cache under concurrency (C09): client       *)
(* goroutines run programs of calls; every method is                       *)
(*     lock: await mu = Free; mu := self ... body ... unlock: mu := Free    *)
(* and Put's body is split at the grain of cache.go (limit check; removal  *)
(* of an existing entry with its callback and size/count update; ONE       *)
(* eviction-loop iteration per step, working on a local newSize; store and *)
(* final assignment of size), Clear one eviction per step.                 *)
(*                                                                         *)
(* Linearizability is checked with history variables: `abs` is the         *)
(* sequential LRU (LRU.tla), advanced atomically at the linearization      *)
(* point of each mutating call (its lock acquisition); a locked call's     *)
(* result must equal the sequential result at that point; a read-only call *)
(* (Len, Size, Has) must return a value the sequential cache had at some   *)
(* moment between its invocation and its response (`win`).                 *)
(*                                                                         *)
(* With every method locked TLC finds no violation.  Unlocked is the set   *)
(* of methods that (in a variant of the design) skip the mutex: TLC then   *)
(* exhibits an interleaving in which Size or Len returns a value that no   *)
(* sequential order explains (e.g. the size in the middle of a replacing   *)
(* Put) — which shows that the specification can see this class of bug.    *)
(***************************************************************************)
EXTENDS LRU

CONSTANTS Clients, Prog, Limit, Unlocked
\* Prog: client -> sequence of [op, k, v]; v = <<tag, size>>

VARIABLES mu,        \* 0 = free, else the holder
          pc,        \* client -> "idle" | "lock" | "put1" | "put2" | "put3" | "clear" | "unlock" | "done"
          ip,        \* client -> index of the current call in its program
          st,        \* the cache's real fields: [order, val, size, count]
          loc,       \* client -> locals of the running call: [ns (newSize), res, ares]
          abs,       \* sequential LRU state (history variable)
          win,       \* client -> set of values a running read-only call may legitimately return
          bad        \* set to TRUE when a call returns something no linearization explains
vars == <<mu, pc, ip, st, loc, abs, win, bad>>

Cur(c) == Prog[c][ip[c]]
Locked(op) == op \notin Unlocked
ReadOnly(op) == op \in {"len", "size", "has"}

SizeOfV(v) == v[2]
HasKey(s, k) == \E i \in DOMAIN s.order : s.order[i] = k

\* what a read-only call would return sequentially right now
SeqRead(op, k) == CASE op = "len" -> CLen(abs) [] op = "size" -> CSize(abs) [] op = "has" -> Present(abs, k)
\* every running read-only call may return the value the sequential cache has now
Widen(a2) ==
  [c \in Clients |->
     IF pc[c] \in {"lock", "read"} /\ ReadOnly(Cur(c).op)
       THEN win[c] \cup {CASE Cur(c).op = "len" -> CLen(a2) [] Cur(c).op = "size" -> CSize(a2) [] Cur(c).op = "has" -> Present(a2, Cur(c).k)}
       ELSE win[c]]

Init ==
  /\ mu = 0
  /\ pc = [c \in Clients |-> "idle"] /\ ip = [c \in Clients |-> 1]
  /\ st = [order |-> <<>>, val |-> <<>>, size |-> 0, count |-> 0]
  /\ loc = [c \in Clients |-> [ns |-> 0, res |-> 0, ares |-> 0]]
  /\ abs = NewCache(Limit, FALSE)
  /\ win = [c \in Clients |-> {}]
  /\ bad = FALSE

\* invocation: the call becomes visible; a read-only call may return the current value
Invoke(c) ==
  /\ pc[c] = "idle" /\ ip[c] <= Len(Prog[c])
  /\ pc' = [pc EXCEPT ![c] = "lock"]
  /\ win' = [win EXCEPT ![c] = IF ReadOnly(Cur(c).op) THEN {SeqRead(Cur(c).op, Cur(c).k)} ELSE {}]
  /\ UNCHANGED <<mu, ip, st, loc, abs, bad>>

\* the sequential effect of a mutating call, applied at its linearization point
AbsApply(o) ==
  CASE o.op = "put" -> LPut(abs, o.k, o.v)
    [] o.op = "get" -> LGet(abs, o.k)
    [] o.op = "remove" -> LRemove(abs, o.k)
    [] o.op = "clear" -> LClear(abs)

\* lock acquisition (or, for an unlocked method, simply starting the body)
Acquire(c) ==
  /\ pc[c] = "lock"
  /\ LET o == Cur(c)
     IN  /\ (Locked(o.op) => mu = 0)
         /\ mu' = IF Locked(o.op) THEN c ELSE mu
         /\ IF ReadOnly(o.op)
              THEN /\ pc' = [pc EXCEPT ![c] = "read"]
                   /\ UNCHANGED <<abs, loc, win>>
              ELSE LET r == AbsApply(o)
                   IN  /\ abs' = r.s
                       /\ loc' = [loc EXCEPT ![c].ares = r.res]
                       /\ win' = Widen(r.s)
                       /\ pc' = [pc EXCEPT ![c] = CASE o.op = "put" -> "put1" [] o.op = "clear" -> "clear" [] OTHER -> "one"]
  /\ UNCHANGED <<ip, st, bad>>

Drop(q, k) == SelectSeq(q, LAMBDA x : x # k)

\* read-only bodies: one read of the real fields
ReadBody(c) ==
  /\ pc[c] = "read"
  /\ LET o == Cur(c)
         r == CASE o.op = "len" -> st.count [] o.op = "size" -> st.size [] o.op = "has" -> HasKey(st, o.k)
     IN  /\ bad' = (bad \/ r \notin win[c])
         /\ loc' = [loc EXCEPT ![c].res = r]
  /\ pc' = [pc EXCEPT ![c] = "unlock"]
  /\ UNCHANGED <<mu, ip, st, abs, win>>

\* Get / Remove: one critical section each
OneBody(c) ==
  /\ pc[c] = "one"
  /\ LET o == Cur(c)
     IN  IF o.op = "get"
           THEN /\ st' = IF HasKey(st, o.k) THEN [st EXCEPT !.order = Append(Drop(st.order, o.k), o.k)] ELSE st
                /\ loc' = [loc EXCEPT ![c].res = IF HasKey(st, o.k) THEN <<st.val[o.k][1], st.val[o.k][2], 1>> ELSE <<0, 0, 0>>]
           ELSE /\ st' = IF HasKey(st, o.k)
                           THEN [st EXCEPT !.order = Drop(st.order, o.k), !.size = @ - SizeOfV(st.val[o.k]), !.count = @ - 1]
                           ELSE st
                /\ loc' = [loc EXCEPT ![c].res = HasKey(st, o.k)]
  /\ pc' = [pc EXCEPT ![c] = "unlock"]
  /\ UNCHANGED <<mu, ip, abs, win, bad>>

\* Put, step 1: limit check; removal of an existing entry; newSize computed
Put1(c) ==
  /\ pc[c] = "put1"
  /\ LET o == Cur(c) vs == SizeOfV(o.v)
     IN  IF vs > Limit
           THEN /\ loc' = [loc EXCEPT ![c].res = FALSE] /\ st' = st
                /\ pc' = [pc EXCEPT ![c] = "unlock"]
           ELSE LET s1 == IF HasKey(st, o.k)
                            THEN [st EXCEPT !.order = Drop(st.order, o.k), !.size = @ - SizeOfV(st.val[o.k]), !.count = @ - 1]
                            ELSE st
                IN  /\ st' = s1
                    /\ loc' = [loc EXCEPT ![c].ns = s1.size + vs]
                    /\ pc' = [pc EXCEPT ![c] = "put2"]
  /\ UNCHANGED <<mu, ip, abs, win, bad>>

\* Put, step 2: one iteration of the eviction loop (count and the store change, size does not yet)
Put2(c) ==
  /\ pc[c] = "put2"
  /\ IF loc[c].ns > Limit /\ st.order # <<>>
       THEN LET k == Head(st.order)
            IN  /\ st' = [st EXCEPT !.order = Tail(st.order), !.count = @ - 1]
                /\ loc' = [loc EXCEPT ![c].ns = @ - SizeOfV(st.val[k])]
                /\ pc' = pc
       ELSE /\ pc' = [pc EXCEPT ![c] = "put3"] /\ UNCHANGED <<st, loc>>
  /\ UNCHANGED <<mu, ip, abs, win, bad>>

\* Put, step 3: store, assign size, count
Put3(c) ==
  /\ pc[c] = "put3"
  /\ LET o == Cur(c)
     IN  /\ st' = [st EXCEPT !.order = Append(@, o.k), !.val = (o.k :> o.v) @@ @, !.size = loc[c].ns, !.count = @ + 1]
         /\ loc' = [loc EXCEPT ![c].res = TRUE]
  /\ pc' = [pc EXCEPT ![c] = "unlock"]
  /\ UNCHANGED <<mu, ip, abs, win, bad>>

\* Clear: one eviction per step
ClearStep(c) ==
  /\ pc[c] = "clear"
  /\ IF st.count > 0 /\ st.order # <<>>
       THEN /\ st' = [st EXCEPT !.order = Tail(@), !.size = @ - SizeOfV(st.val[Head(st.order)]), !.count = @ - 1]
            /\ pc' = pc /\ loc' = loc
       ELSE /\ loc' = [loc EXCEPT ![c].res = TRUE] /\ pc' = [pc EXCEPT ![c] = "unlock"] /\ st' = st
  /\ UNCHANGED <<mu, ip, abs, win, bad>>

\* response: a mutating call's result must be the sequential one
Release(c) ==
  /\ pc[c] = "unlock"
  /\ LET o == Cur(c)
     IN  /\ mu' = IF Locked(o.op) THEN 0 ELSE mu
         /\ bad' = (bad \/ (~ReadOnly(o.op) /\ o.op # "clear" /\ loc[c].res # loc[c].ares))
  /\ ip' = [ip EXCEPT ![c] = @ + 1]
  /\ pc' = [pc EXCEPT ![c] = "idle"]
  /\ win' = [win EXCEPT ![c] = {}]
  /\ UNCHANGED <<st, loc, abs>>

Next == \E c \in Clients : Invoke(c) \/ Acquire(c) \/ ReadBody(c) \/ OneBody(c) \/ Put1(c) \/ Put2(c) \/ Put3(c) \/ ClearStep(c) \/ Release(c)
Spec == Init /\ [][Next]_vars

(* ---- what TLC checks ---------------------------------------------------- *)
Linearizable == ~bad
\* whenever nobody is inside a critical section the real fields are the sequential cache
Quiescent == mu = 0 /\ \A c \in Clients : pc[c] \in {"idle", "lock", "done"} \/ (pc[c] \in {"read", "unlock"} /\ ReadOnly(Cur(c).op))
Agrees == (Quiescent /\ Unlocked = {}) =>
            /\ st.order = abs.order /\ st.size = CSize(abs) /\ st.count = CLen(abs)
            /\ st.size <= Limit
MutualExclusion == Cardinality({c \in Clients : pc[c] \in {"one", "put1", "put2", "put3", "clear"}}) <= 1 \/ Unlocked # {}

\* programs for the cfg files
P2 == (1 :> <<[op |-> "put", k |-> 1, v |-> <<1, 2>>], [op |-> "put", k |-> 2, v |-> <<2, 2>>], [op |-> "put", k |-> 1, v |-> <<3, 1>>]>>)
   @@ (2 :> <<[op |-> "size", k |-> 0, v |-> <<0, 0>>], [op |-> "get", k |-> 1, v |-> <<0, 0>>], [op |-> "len", k |-> 0, v |-> <<0, 0>>]>>)
\* a program with Clear against observers (Clear evicts one entry per step under the lock)
P2c == (1 :> <<[op |-> "put", k |-> 1, v |-> <<1, 1>>], [op |-> "put", k |-> 2, v |-> <<2, 1>>], [op |-> "clear", k |-> 0, v |-> <<0, 0>>], [op |-> "put", k |-> 3, v |-> <<3, 2>>]>>)
    @@ (2 :> <<[op |-> "len", k |-> 0, v |-> <<0, 0>>], [op |-> "has", k |-> 2, v |-> <<0, 0>>], [op |-> "size", k |-> 0, v |-> <<0, 0>>]>>)
P3 == P2 @@ (3 :> <<[op |-> "remove", k |-> 2, v |-> <<0, 0>>], [op |-> "has", k |-> 1, v |-> <<0, 0>>], [op |-> "clear", k |-> 0, v |-> <<0, 0>>]>>)
=============================================================================
