SPECIFICATION RSpec
CONSTANTS
  MaxCap = 24
  InitCaps = {0, 1, 2, 3, 4, 5, 6, 7, 8, 9, 10, 11, 12, 13, 14, 15, 16, 17, 18, 19, 20, 21, 22, 23, 24}
VIEW ShapeView
INVARIANTS RingTypeOK RingRefines
ACTION_CONSTRAINT Emit
CHECK_DEADLOCK FALSE
