-------------------------------- MODULE CVMMC --------------------------------
(***************************************************************************)
(* All coin outcomes for short streams over a small value universe:        *)
(* boundedness, exact regime, monotone k, buffer drawn from the stream.    *)
(* With Known = {"F8"} (one halving pass only, as the code was) TLC finds  *)
(* the 3-step counterexample to boundedness.  Each transition is emitted   *)
(* as a coin-scripted operation path for replay on the real counter.       *)
(***************************************************************************)
EXTENDS CVMIdent, Json
CONSTANTS Caps, Vals, MaxAdds
VARIABLES s, n, path
vars == <<s, n, path>>

\* script for one Add: the coin (0 = keep, 1 = fail; only consumed when k > 0)
\* and one mask word per pass: bit i set = the i-th element met survives
Op(name, v, coin, pops) == [op |-> name, v |-> v, size |-> s.cap, coin |-> coin, pops |-> pops]
Init == \E c \in Caps : s = New(c) /\ n = 0 /\ path = <<[op |-> "new", v |-> 0, size |-> c, coin |-> 0, pops |-> <<>>]>>

RECURSIVE AllSurvive(_, _)
AllSurvive(j, m) == IF j = 0 THEN <<>> ELSE <<m>> \o AllSurvive(j - 1, m)
Next ==
  \/ /\ n < MaxAdds
     /\ \E v \in Vals : \E t \in AddOutcomes(s, v) :
          /\ s' = t /\ n' = n + 1
          /\ LET b1 == s.buf \cup {v}
                 failed == t = AddFail(s, v) /\ s.k > 0 /\ ~(t \in KeepOutcomes(s, v))
                 passes == t.k - s.k
                 pops == IF passes = 0 THEN <<>>
                         ELSE AllSurvive(passes - 1, Cardinality(b1)) \o <<Cardinality(t.buf)>>
             IN  path' = Append(path, Op("add", v, IF failed THEN 1 ELSE 0, pops))
  \/ /\ n > 0 /\ s' = Reset(s) /\ n' = 0 /\ path' = Append(path, Op("reset", 0, 0, <<>>))
Spec == Init /\ [][Next]_vars

BoundedInv == Bounded(s)
ExactInv == ExactRegime(s)
FromSeenInv == BufFromSeen(s)
KMonotone == [][s'.k >= s.k \/ s' = Reset(s)]_vars
View == <<s, n>>
Emit == PrintT(ToJson(path'))
=============================================================================
