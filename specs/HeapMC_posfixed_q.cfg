SPECIFICATION Spec
CONSTANTS
  Known = {}
  Prios = {1, 2, 3, 4, 5, 6}
  MaxLen = 6
  InitSeqs <- SeqD
  DistinctP = TRUE
VIEW View
INVARIANTS Conserved PosOK FrontIsMin HeapOrder

CHECK_DEADLOCK FALSE
