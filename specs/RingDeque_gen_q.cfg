SPECIFICATION RSpec
CONSTANTS
  MaxCap = 12
  InitCaps = {0, 1, 2, 3, 4, 5, 6, 7, 8, 9, 10, 11, 12}
VIEW ShapeView
INVARIANTS RingTypeOK RingRefines
ACTION_CONSTRAINT Emit
CHECK_DEADLOCK FALSE
