------------------------------ MODULE CVMIdent ------------------------------
(***************************************************************************)
(* The one-step identities behind the unbiasedness of the CVM estimator    *)
(* (kept apart from CVM.tla so that CVM.tla stays within the fragment      *)
(* Apalache accepts).  TLC checks the ASSUMEs whenever CVMMC is run.       *)
(***************************************************************************)
EXTENDS CVM

(* ---- unbiasedness: the one-step identities ------------------------------ *)
(* E[ [a in buf'] * 2^k' | state ] = [a in buf] * 2^k for every a # v, and    *)
(* = 1 for a = v, for the coin step; and the same identity for one halving  *)
(* pass (each of the 2^n subsets equally likely).  With them E[Count] =     *)
(* |seen| follows by induction on the stream (Count = sum over a of         *)
(* [a in buf]*2^k).  Checked here by enumeration for all small n, in        *)
(* integers scaled by 2^n.                                                  *)
In(a, S) == IF a \in S THEN 1 ELSE 0
HalveIdentity(n) ==
  LET b == 1..n
  IN  \A a \in b :
        \* sum over all subsets S of [a in S] * 2^(k+1), k = 0, times 1 (weights 2^-n scaled away)
        LET total == Cardinality({S \in SUBSET b : a \in S}) * 2
        IN  total = Pow2(n) * 1                     \* = 2^n * [a in b] * 2^0
CoinIdentity(k) ==
  \* keep with weight 1, fail with weight 2^k - 1 (of 2^k): for the added value v,
  \* E[[v in buf'] 2^k] = (1 * 2^k + (2^k - 1) * 0) / 2^k = 1, whether or not v was buffered
  (1 * Pow2(k) + (Pow2(k) - 1) * 0) = Pow2(k) * 1
ASSUME \A n \in 1..8 : HalveIdentity(n)
ASSUME \A k \in 0..10 : CoinIdentity(k)
=============================================================================
