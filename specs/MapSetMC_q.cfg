SPECIFICATION Spec
CONSTANT U = {1,2}
VIEW View
INVARIANTS Laws NilIsEmpty
ACTION_CONSTRAINT Emit
CHECK_DEADLOCK FALSE
