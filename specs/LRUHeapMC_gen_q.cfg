SPECIFICATION Spec
CONSTANTS
  Known = {}
  Limit = 5
  NKeys = 6
VIEW RankView
INVARIANTS RefinesLRU SameContents
ACTION_CONSTRAINT Emit
CHECK_DEADLOCK FALSE
