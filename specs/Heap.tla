-------------------------------- MODULE Heap --------------------------------
(***************************************************************************)
(* Implementation-shaped specification of heapq.Queue (C05, C06): the      *)
(* array heap with pushUp / pushDown / swap / pop(i), one operator per     *)
(* routine of heapq.go.  Elements are pairs <<priority, id>>; the          *)
(* comparison looks at the priority only, in direction dir (1 ascending,   *)
(* -1 descending).  Offsets are 0-based as in the code.                    *)
(*                                                                         *)
(* Known is the set of *as-is* switches.  With a switch on, the operator   *)
(* at that call site is modelled as the code has it:                       *)
(*   "F1"  pushUp computes the parent of i as i/2       (corrected: (i-1)/2)*)
(*   "F2"  pop(i) only sifts the replacement down  (corrected: down, then  *)
(*         up if it did not move)                                          *)
(* Every operator threads a record [d |-> array, rep |-> position reports] *)
(* so that the update-callback sequence (C06) is part of the model.        *)
(***************************************************************************)
EXTENDS Integers, Sequences, FiniteSets, TLC

CONSTANT Known

Less(dir, a, b) == IF dir = 1 THEN a[1] < b[1] ELSE a[1] > b[1]   \* cmp(a, b) < 0

Get(d, i) == d[i + 1]
Swap(s, i, j) ==
  LET d2 == [s.d EXCEPT ![i + 1] = s.d[j + 1], ![j + 1] = s.d[i + 1]]
  IN  [d |-> d2, rep |-> s.rep \o <<<<d2[i + 1][2], i>>, <<d2[j + 1][2], j>>>>]

Parent(i) == IF "F1" \in Known THEN i \div 2 ELSE (i - 1) \div 2

RECURSIVE PushUp(_, _, _)       \* returns [s, i]
PushUp(dir, s, i) ==
  IF i > 0 /\ Less(dir, Get(s.d, i), Get(s.d, Parent(i)))
    THEN PushUp(dir, Swap(s, i, Parent(i)), Parent(i))
    ELSE [s |-> s, i |-> i]

RECURSIVE PushDown(_, _, _)     \* returns [s, i]
PushDown(dir, s, i) ==
  LET n == Len(s.d)
      lc == 2 * i + 1
      rc == lc + 1
  IN  IF lc >= n THEN [s |-> s, i |-> i]
      ELSE LET m1 == IF Less(dir, Get(s.d, lc), Get(s.d, i)) THEN lc ELSE i
               m2 == IF rc < n /\ Less(dir, Get(s.d, rc), Get(s.d, m1)) THEN rc ELSE m1
           IN  IF m2 = i THEN [s |-> s, i |-> i]
               ELSE PushDown(dir, Swap(s, i, m2), m2)

\* pop(i): precondition i < Len(d).  Returns [s, out].
PopAt(dir, s, i) ==
  LET out == Get(s.d, i)
      n == Len(s.d) - 1
  IN  IF n = 0 THEN [s |-> [s EXCEPT !.d = <<>>], out |-> out]
      ELSE LET d1 == SubSeq([s.d EXCEPT ![i + 1] = s.d[n + 1]], 1, n)
               s1 == [d |-> d1, rep |-> IF i < n THEN s.rep \o <<<<d1[i + 1][2], i>>>> ELSE s.rep]
               \* i = n: the last element itself is removed; the code reports
               \* the (departing) element at n before truncating
               s1b == IF i = n THEN [d |-> d1, rep |-> s.rep \o <<<<out[2], i>>>>] ELSE s1
               dn == IF i < n THEN PushDown(dir, s1b, i) ELSE [s |-> s1b, i |-> i]
               up == IF "F2" \notin Known /\ i < n /\ dn.i = i THEN PushUp(dir, dn.s, i) ELSE dn
           IN  [s |-> up.s, out |-> out]

AddTo(dir, s, v) ==
  LET n == Len(s.d)
      s1 == [d |-> Append(s.d, v), rep |-> s.rep \o <<<<v[2], n>>>>]
  IN  PushUp(dir, s1, n)                      \* [s, i]: i is Add's return value

RECURSIVE HeapifyFrom(_, _, _)   \* pushDown(i) for i, i-1, ..., 0
HeapifyFrom(dir, s, i) == IF i < 0 THEN s ELSE HeapifyFrom(dir, PushDown(dir, s, i).s, i - 1)
Heapify(dir, s) == HeapifyFrom(dir, s, Len(s.d) \div 2)

RECURSIVE SetFrom(_, _, _)       \* Set: report then pushDown, for i = len-1 .. 0
SetFrom(dir, s, i) ==
  IF i < 0 THEN s
  ELSE LET s1 == [s EXCEPT !.rep = @ \o <<<<Get(s.d, i)[2], i>>>>]
       IN  SetFrom(dir, PushDown(dir, s1, i).s, i - 1)
SetAll(dir, vs) == SetFrom(dir, [d |-> vs, rep |-> <<>>], Len(vs) - 1)

(* ---- properties of an array ------------------------------------------- *)
HeapOrdered(dir, d) ==
  \A i \in 1..(Len(d) - 1) : ~Less(dir, Get(d, i), Get(d, (i - 1) \div 2))
FrontMinimal(dir, d) ==
  d # <<>> => \A i \in 0..(Len(d) - 1) : ~Less(dir, Get(d, i), Get(d, 0))
=============================================================================
