SPECIFICATION Spec
CONSTANT MaxN = 6
INVARIANTS AlgRotateOK AlgPartitionOK EmitInput
CHECK_DEADLOCK FALSE
