SPECIFICATION Spec
CONSTANTS
  Known = {}
  Caps = {2, 3}
  Vals = {1, 2, 3}
  MaxAdds = 5
VIEW View
INVARIANTS BoundedInv ExactInv FromSeenInv
PROPERTIES KMonotone
ACTION_CONSTRAINT Emit
CHECK_DEADLOCK FALSE
