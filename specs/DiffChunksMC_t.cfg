SPECIFICATION Spec
CONSTANTS
  Sym = {1, 2, 3}
  MaxLen = 4
  Sym2 = {1, 2}
  MaxLen2 = 6
  MaxN = 4
INVARIANTS NewOK EmitInput
CHECK_DEADLOCK FALSE
