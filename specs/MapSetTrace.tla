----------------------------- MODULE MapSetTrace -----------------------------
(***************************************************************************)
(* Trace validation for C18: every recorded call on real mapset.Set values *)
(* and, after each call, the complete observable state of all three sets   *)
(* (nil-ness, Len, members, Slice/Append multiplicity) and every predicate *)
(* for every pair of operands.                                             *)
(***************************************************************************)
EXTENDS MapSet, TraceBase

VARIABLE st

TInit == TLCSet(1, 0) /\ l = 1 /\ st = Sets0
B(x) == IF x THEN 1 ELSE 0

\* large sets are observed through Len, IsEmpty, membership probes and the lengths of Slice / Append
BigObsOK(e, s) ==
  \A x \in Names :
    LET o == e.sets[x]
    IN  /\ o[1] = B(s[x].nil)
        /\ o[2] = Cardinality(s[x].m) /\ o[3] = B(s[x].m = {})
        /\ \A i \in DOMAIN o[4] : o[4][i][2] = B(o[4][i][1] \in s[x].m)
        /\ o[5] = Cardinality(s[x].m) /\ o[6] = Cardinality(s[x].m) + 1

SmallObsOK(e, s) ==
  /\ \A x \in Names :
       LET o == e.sets[x]
       IN  /\ o[1] = B(s[x].nil)
           /\ o[2] = Cardinality(s[x].m) /\ o[3] = B(s[x].m = {})
           /\ o[4] = SortSet(s[x].m)                 \* membership (Has over the probe universe)
           /\ o[5] = SortSet(s[x].m)                 \* Slice: each member exactly once
           /\ o[6] = <<99>> \o SortSet(s[x].m)       \* Append(<<99>>): prefix kept, each member once
ObsOK(e, s) ==
  /\ (IF e.big = 1 THEN BigObsOK(e, s) ELSE SmallObsOK(e, s))
  /\ \A i \in DOMAIN e.preds :
       LET p == e.preds[i] a == s[p[1]] b == s[p[2]]
       IN  p[3] = B(Intersects(a, b)) /\ p[4] = B(IsSubset(a, b)) /\ p[5] = B(Equals(a, b))
  /\ \A i \in DOMAIN e.hass :
       LET h == e.hass[i] IN h[3] = B(HasAll(s[h[1]], h[2])) /\ h[4] = B(HasAny(s[h[1]], h[2]))

TStep ==
  /\ l <= N
  /\ l' = l + 1
  /\ LET e == Trace[l]
     IN  /\ e.panic = ""
         /\ CASE e.op = "new"       -> st' = Sets0
              [] e.op = "mk"        -> st' = MNew(st, e.x, e.items)
              [] e.op = "add"       -> st' = MAdd(st, e.x, e.items)
              [] e.op = "addrange"  -> st' = MAddRange(st, e.x, e.lo, e.hi)
              [] e.op = "addall"    -> st' = MAddAll(st, e.x, e.y)
              [] e.op = "remove"    -> st' = MRemove(st, e.x, e.items)
              [] e.op = "removeall" -> st' = MRemoveAll(st, e.x, e.y)
              [] e.op = "clear"     -> st' = MClear(st, e.x)
              [] e.op = "clone"     -> st' = MClone(st, e.x, e.y)
              [] e.op = "intersect" -> st' = MIntersect(st, e.items, e.y)
              [] e.op \in {"keys", "values", "range"} -> st' = MNew(st, e.x, e.items)
              [] e.op = "pop"       -> PopOK(st, e.x, e.ret, st')
              [] OTHER -> FALSE
         /\ ObsOK(e, st')

TSkip ==
  /\ l <= N
  /\ ~ENABLED TStep
  /\ Reject(l)
  /\ l' = NextNew(l)
  /\ st' = Sets0

TNext == TStep \/ TSkip
TSpec == TInit /\ [][TNext]_<<st, l>>
=============================================================================
