SPECIFICATION RSpec
CONSTANTS
  MaxCap = 6
  InitCaps = {0, 1, 2, 3, 5}
VIEW FullView
INVARIANTS RingTypeOK RingRefines
PROPERTIES RefinesDeque
CHECK_DEADLOCK FALSE
