SPECIFICATION RSpec
CONSTANTS
  MaxCap = 8
  InitCaps = {0, 1, 2, 3, 5, 7}
VIEW FullView
INVARIANTS RingTypeOK RingRefines
PROPERTIES RefinesDeque
CHECK_DEADLOCK FALSE
