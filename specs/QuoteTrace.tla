------------------------------ MODULE QuoteTrace ------------------------------
(***************************************************************************)
(* Record validation for C15: for the real Quote(s) / Join(ss): POSIX      *)
(* evaluation of the output as command words gives back exactly the        *)
(* strings, no special byte is left unquoted, and the real Split inverts   *)
(* it and reports the input complete.                                      *)
(***************************************************************************)
EXTENDS ShellLex, TraceBase

TInit == TLCSet(1, 0) /\ l = 1

TStep ==
  /\ l <= N
  /\ l' = l + 1
  /\ LET e == Trace[l]
         ev == EvalF(e.q)            \* = Eval(e.q), see QuoteMC.EvalFastOK
     IN  /\ e.panic = ""
         /\ ev.closed /\ ev.exposed = {}
         /\ ev.words = e.ss
         /\ (e.kind = "quote" => Len(e.ss) = 1)
         /\ e.split.toks = e.ss /\ e.split.ok = TRUE
         \* asked again after other inputs (one of them incomplete): Split is a function of its argument
         /\ e.split2.toks = e.ss /\ e.split2.ok = TRUE

TSkip == l <= N /\ ~ENABLED TStep /\ Reject(l) /\ l' = l + 1
TNext == TStep \/ TSkip
TSpec == TInit /\ [][TNext]_<<l>>
=============================================================================
