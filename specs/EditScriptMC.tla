---------------------------- MODULE EditScriptMC ----------------------------
(***************************************************************************)
(* For EVERY pair of sequences in the space (one initial state per pair):  *)
(* the transcribed algorithms of slice/edit.go produce a valid, minimal,   *)
(* canonical script and an optimal common subsequence.  Each pair is also  *)
(* printed as an input for the real code (the space is defined here, so    *)
(* the driver cannot skip a case).                                         *)
(***************************************************************************)
EXTENDS EditScript, Json

CONSTANTS Sym, MaxLen, Sym2, MaxLen2

VARIABLES lhs, rhs

Space == (SeqsUpTo(Sym, MaxLen) \X SeqsUpTo(Sym, MaxLen)) \cup (SeqsUpTo(Sym2, MaxLen2) \X SeqsUpTo(Sym2, MaxLen2))
Init == \E p \in Space : lhs = p[1] /\ rhs = p[2]
Next == UNCHANGED <<lhs, rhs>>
Spec == Init /\ [][Next]_<<lhs, rhs>>

AlgScriptOK == ScriptOK(AlgEditScript(lhs, rhs), lhs, rhs)
AlgLcsOK == LcsOK(AlgLCS(lhs, rhs), lhs, rhs)
LcsSymmetric == LCSLen(lhs, rhs) = LCSLen(rhs, lhs)
EmitInput == PrintT(ToJson([lhs |-> lhs, rhs |-> rhs]))
=============================================================================
