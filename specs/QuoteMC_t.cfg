SPECIFICATION Spec
CONSTANTS
  Alphabet = {97, 39, 34, 92, 32, 9, 10, 36, 96, 42, 35, 126, 61, 128}
  MaxLen = 4
  ListAlphabet = {97, 39, 32, 92, 34, 10}
  MaxItem = 2
  MaxItems = 3
INVARIANTS AlgQuoteOK AlgJoinOK EvalFastOK EmitInput
CHECK_DEADLOCK FALSE
