SPECIFICATION Spec
CONSTANTS
  Known = {}
  Caps = {2, 3, 4}
  Vals = {1, 2, 3, 4, 5}
  MaxAdds = 6
VIEW View
INVARIANTS BoundedInv ExactInv FromSeenInv
PROPERTIES KMonotone
ACTION_CONSTRAINT Emit
CHECK_DEADLOCK FALSE
