SPECIFICATION Spec
CONSTANTS
  Clients = {1, 2}
  Prog <- P2c
  Limit = 3
  Unlocked = {}
INVARIANTS Linearizable Agrees MutualExclusion
CHECK_DEADLOCK FALSE
