SPECIFICATION Spec
CONSTANTS
  Known = {"F1", "F2"}
  Prios = {1, 2, 3}
  MaxLen = 6
  InitSeqs <- Seq3
  DistinctP = FALSE
VIEW View
INVARIANTS Conserved PosOK
ACTION_CONSTRAINT Emit
CHECK_DEADLOCK FALSE
