SPECIFICATION SSpec
CONSTANTS
  Beta = 750
  Classes = {1, 2, 3, 4, 5}
  Tags = {1}
  Rev = FALSE
VIEW ShapeView
INVARIANTS NoPanic IsBST SizeOK Refines Balanced InorderAgrees
ACTION_CONSTRAINT Emit
CHECK_DEADLOCK FALSE
