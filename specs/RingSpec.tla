------------------------------ MODULE RingSpec ------------------------------
(***************************************************************************)
(* Abstract specification of ring.Ring (C10): the elements are partitioned *)
(* into cycles; nxt is the successor function (a permutation).  Of/New,    *)
(* Join and Pop are defined by the cyclic SEQUENCES the documentation      *)
(* draws, not by pointer surgery:                                          *)
(*   Join(r, s), different rings [r1..rn], [s1..sm]:                       *)
(*        one ring [r1 s1..sm r2..rn]; returns r2 (r1 itself if n = 1)     *)
(*   Join(r, s), same ring [r1 r2..ri s1..sm..]:                           *)
(*        [r1 s1..sm..] and the spliced-out ring [r2..ri]; returns r2, or  *)
(*        nil when nothing lies between (s = r.next, or s = r)             *)
(*   Pop(r): r alone; the rest of its ring closed up.                      *)
(***************************************************************************)
EXTENDS Integers, Sequences, FiniteSets, TLC

RECURSIVE CycleGo(_, _, _)
CycleGo(nxt, r, x) == IF nxt[x] = r THEN <<x>> ELSE <<x>> \o CycleGo(nxt, r, nxt[x])
Cycle(nxt, r) == CycleGo(nxt, r, r)          \* the ring of r, starting at r
InSeq(q, x) == \E i \in DOMAIN q : q[i] = x
Idx(q, x) == CHOOSE i \in DOMAIN q : q[i] = x

\* successor function of a set of cyclic sequences, overriding nxt on their elements
RingOf(q) == [i \in DOMAIN q |-> q[(i % Len(q)) + 1]]
Close(nxt, q) == [x \in DOMAIN nxt |-> IF InSeq(q, x) THEN q[(Idx(q, x) % Len(q)) + 1] ELSE nxt[x]]

\* Of(vs...): a fresh ring of the given (new) elements
AOf(nxt, q) == [x \in DOMAIN nxt \cup {q[i] : i \in DOMAIN q} |->
                  IF InSeq(q, x) THEN q[(Idx(q, x) % Len(q)) + 1] ELSE nxt[x]]

AJoin(nxt, r, s) ==
  LET cr == Cycle(nxt, r)
  IN  IF r = s \/ nxt[r] = s THEN [nxt |-> nxt, ret |-> 0]
      ELSE IF InSeq(cr, s)
        THEN LET i == Idx(cr, s)                                  \* cr = <<r, r2..ri, s, ...>>
                 out == SubSeq(cr, 2, i - 1)
                 keep == <<r>> \o SubSeq(cr, i, Len(cr))
             IN  [nxt |-> Close(Close(nxt, keep), out), ret |-> out[1]]
        ELSE LET cs == Cycle(nxt, s)
                 all == <<r>> \o cs \o Tail(cr)
             IN  [nxt |-> Close(nxt, all), ret |-> nxt[r]]

APop(nxt, r) ==
  LET cr == Cycle(nxt, r)
  IN  IF Len(cr) = 1 THEN nxt
      ELSE Close(Close(nxt, Tail(cr)), <<r>>)

\* observations
Prev(nxt, x) == CHOOSE y \in DOMAIN nxt : nxt[y] = x
RECURSIVE Walk(_, _, _)
Walk(f, x, n) == IF n = 0 THEN x ELSE Walk(f, f[x], n - 1)
AAt(nxt, r, n) ==         \* 0 = nil: |n| >= length (as the code and TestRing/Peek pin it)
  LET len == Len(Cycle(nxt, r))
      m == IF n < 0 THEN 0 - n ELSE n
  IN  IF m >= len /\ m > 0 THEN 0
      ELSE IF n >= 0 THEN Cycle(nxt, r)[m + 1] ELSE Cycle(nxt, r)[len - m + 1]

IsPermutation(nxt) == {nxt[x] : x \in DOMAIN nxt} = DOMAIN nxt
=============================================================================
