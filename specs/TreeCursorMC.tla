---------------------------- MODULE TreeCursorMC ----------------------------
(***************************************************************************)
(* Exhaustive check of TreeCursor over every binary-tree shape with at     *)
(* most MaxNodes nodes and every cursor position: the walk-up algorithm of *)
(* cursor.go equals the abstract move, and the structural laws hold.       *)
(* Every (shape, start, move) is emitted for replay on a real tree.        *)
(***************************************************************************)
EXTENDS TreeCursor

CONSTANT MaxNodes, MaxMoves

VARIABLES tree, cur, path
cvars == <<tree, cur, path>>

CInit ==
  \E n \in 0..MaxNodes : \E t \in ShapesFrom(n, 0) :
    /\ tree = t
    /\ \E k \in Keys(t) \cup {0} :
         /\ cur = IF k = 0 THEN Invalid ELSE At(PathOf(t, k))
         /\ path = [pre |-> PreOrder(t), start |-> k, moves |-> <<>>]

CMove(m) ==
  /\ Len(path.moves) < MaxMoves
  /\ cur' = Move(tree, cur, m)
  /\ tree' = tree
  /\ path' = [path EXCEPT !.moves = Append(@, m)]

CNext == \E m \in Moves : CMove(m)
CSpec == CInit /\ [][CNext]_cvars

(* ---- what TLC checks on every (shape, cursor) -------------------------- *)
AlgEqualsAbs ==
  /\ AlgNext(tree, cur) = AbsNext(tree, cur)
  /\ AlgPrev(tree, cur) = AbsPrev(tree, cur)
  /\ AlgMin(tree, cur) = AbsMin(tree, cur)
  /\ AlgMax(tree, cur) = AbsMax(tree, cur)

CursorSane ==
  /\ IsBST(tree)
  /\ (cur.v => cur.p \in Paths(tree))
  \* everything reachable through Left is smaller, through Right larger
  /\ (cur.v => /\ \A k \in Keys(Sub(tree, cur.p \o <<"L">>)) : k < KeyAt(tree, cur.p)
               /\ \A k \in Keys(Sub(tree, cur.p \o <<"R">>)) : k > KeyAt(tree, cur.p))
  \* Up inverts Left/Right
  /\ (AbsChild(tree, cur, "L").v => AbsUp(tree, AbsChild(tree, cur, "L")) = cur)
  /\ (AbsChild(tree, cur, "R").v => AbsUp(tree, AbsChild(tree, cur, "R")) = cur)
  \* Next and Prev are mutually inverse where defined
  /\ (AbsNext(tree, cur).v => AbsPrev(tree, AbsNext(tree, cur)) = cur)
  /\ (AbsPrev(tree, cur).v => AbsNext(tree, AbsPrev(tree, cur)) = cur)
  \* moves on an invalid cursor are no-ops
  /\ (~cur.v => \A m \in Moves : Move(tree, cur, m) = Invalid)

CView == <<tree, cur>>
Emit == PrintT(ToJson(path'))
=============================================================================
