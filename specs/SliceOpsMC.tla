----------------------------- MODULE SliceOpsMC -----------------------------
(***************************************************************************)
(* Enumerates the argument space of the slice utilities (one state per     *)
(* argument tuple), checks the transcribed Rotate and Partition algorithms *)
(* against their definitions, and emits every tuple as an input for the    *)
(* real functions.                                                         *)
(***************************************************************************)
EXTENDS SliceOps, Json
CONSTANTS MaxN
VARIABLE a      \* the argument tuple: [op, n, k, keep, spare]
Iota(n) == [i \in 1..n |-> i - 1]
Args ==
  {[op |-> "rotate", n |-> n, k |-> k, keep |-> {}, spare |-> 0] : n \in 0..MaxN, k \in (0 - MaxN - 1)..(MaxN + 1)}
  \cup {[op |-> "partition", n |-> n, k |-> 0, keep |-> kp, spare |-> sp] : n \in 0..Min2(MaxN, 6), kp \in SUBSET (0..(Min2(MaxN, 6) - 1)), sp \in {0, 3}}
  \cup {[op |-> o, n |-> n, k |-> k, keep |-> {}, spare |-> sp] : o \in {"chunks", "batches"}, n \in 0..MaxN, k \in (0 - 1)..(MaxN + 2), sp \in {0, 3}}
  \cup {[op |-> o, n |-> n, k |-> k, keep |-> {}, spare |-> 0] : o \in {"head", "tail"}, n \in 0..MaxN, k \in 0..(MaxN + 1)}
  \cup {[op |-> o, n |-> n, k |-> k, keep |-> {}, spare |-> 0] : o \in {"at", "ptrat"}, n \in 0..MaxN, k \in (0 - MaxN - 1)..(MaxN + 1)}
Init == a \in Args
Next == UNCHANGED a
Spec == Init /\ [][Next]_a

AlgRotateOK ==
  (a.op = "rotate" /\ RotateAllowed(a.n, a.k) /\ a.n > 0) => AlgRotate(Iota(a.n), a.k) = Rotated(Iota(a.n), a.k)
AlgPartitionOK ==
  a.op = "partition" /\ a.keep \subseteq 0..(a.n - 1) =>
    LET r == AlgPartition(Iota(a.n), a.keep)
    IN  PartitionOK(Iota(a.n), a.keep, [out |-> SubSeq(r.vs, 1, r.n), off |-> 0, len |-> r.n, cap |-> r.n], r.vs)
EmitInput == PrintT(ToJson([op |-> a.op, n |-> a.n, k |-> a.k, keep |-> [i \in 1..a.n |-> IF (i - 1) \in a.keep THEN 1 ELSE 0], spare |-> a.spare]))
=============================================================================
