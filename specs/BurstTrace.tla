----------------------------- MODULE BurstTrace -----------------------------
(***************************************************************************)
(* C09, second history shape: a burst of concurrent Gets followed (after   *)
(* all of them have returned) by Puts that must evict.  Gets of present    *)
(* keys commute except for the recency order they leave among the keys     *)
(* they touched; so the cache is abstracted to three tiers                 *)
(*    cold : sequence, least recently used first (untouched by the burst)  *)
(*    warm : set -- touched by the burst, relative order unknown           *)
(*    hot  : sequence -- stored after the burst                            *)
(* and the LRU victim is the head of cold, else ANY warm key, else the     *)
(* head of hot.  Every linearization of the burst leads to a state of this *)
(* abstraction, so a history it rejects has no linearization: an access    *)
(* that returned but was not recorded shows as a warm key evicted while a  *)
(* cold one is still there.  (LinTrace could decide the same histories,    *)
(* but only by enumerating the orders of hundreds of commuting Gets.)      *)
(* Entries count 1 each; values are [tag = key, size = 1].                 *)
(***************************************************************************)
EXTENDS TraceBase, FiniteSets

VARIABLES cold, warm, hot, limit

SeqSet(q) == {q[i] : i \in DOMAIN q}
Present == SeqSet(cold) \cup warm \cup SeqSet(hot)
Count == Len(cold) + Cardinality(warm) + Len(hot)
Without(q, S) == SelectSeq(q, LAMBDA x : x \notin S)

TInit == TLCSet(1, 0) /\ l = 1 /\ cold = <<>> /\ warm = {} /\ hot = <<>> /\ limit = 0

TStep ==
  /\ l <= N
  /\ l' = l + 1
  /\ LET e == Trace[l]
     IN  /\ e.panic = ""
         /\ CASE e.op = "new" ->
                   /\ Len(e.fill) <= e.limit /\ Cardinality(SeqSet(e.fill)) = Len(e.fill)
                   /\ cold' = e.fill /\ warm' = {} /\ hot' = <<>> /\ limit' = e.limit
                   /\ e.len = Len(e.fill) /\ e.size = Len(e.fill) /\ e.evs = <<>>
              [] e.op = "burst" ->
                   /\ hot = <<>>                                  \* the abstraction orders hot after warm
                   /\ e.miss = 0                                  \* every Get hit and returned the stored value
                   /\ SeqSet(e.keys) \subseteq Present
                   /\ cold' = Without(cold, SeqSet(e.keys)) /\ warm' = warm \cup SeqSet(e.keys)
                   /\ UNCHANGED <<hot, limit>>
                   /\ e.len = Count /\ e.size = Count /\ e.evs = <<>>
              [] e.op = "put" ->
                   /\ e.k \notin Present /\ e.res = TRUE /\ limit' = limit
                   /\ IF Count + 1 <= limit
                        THEN /\ e.evs = <<>> /\ cold' = cold /\ warm' = warm /\ hot' = Append(hot, e.k)
                        ELSE /\ Len(e.evs) = 1
                             /\ LET v == e.evs[1][1]
                                IN  /\ e.evs[1] = <<v, v, 1>>
                                    /\ IF cold # <<>> THEN v = Head(cold) /\ cold' = Tail(cold) /\ warm' = warm /\ hot' = Append(hot, e.k)
                                       ELSE IF warm # {} THEN v \in warm /\ warm' = warm \ {v} /\ cold' = cold /\ hot' = Append(hot, e.k)
                                       ELSE v = Head(hot) /\ hot' = Append(Tail(hot), e.k) /\ cold' = cold /\ warm' = warm
                   /\ e.len = Len(cold') + Cardinality(warm') + Len(hot') /\ e.size = e.len
              [] OTHER -> FALSE

TSkip ==
  /\ l <= N
  /\ ~ENABLED TStep
  /\ Reject(l)
  /\ l' = NextNew(l)
  /\ cold' = <<>> /\ warm' = {} /\ hot' = <<>> /\ limit' = 0

TNext == TStep \/ TSkip
TSpec == TInit /\ [][TNext]_<<cold, warm, hot, limit, l>>
=============================================================================
