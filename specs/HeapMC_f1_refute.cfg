SPECIFICATION Spec
CONSTANTS
  Known = {"F1"}
  Prios = {1, 2, 3, 4}
  MaxLen = 7
  InitSeqs <- Seq3
  DistinctP = FALSE
VIEW View
INVARIANTS Conserved FrontIsMin

CHECK_DEADLOCK FALSE
