SPECIFICATION Spec
CONSTANTS
  Sym = {1, 2, 3}
  MaxLen = 6
  Sym2 = {1, 2}
  MaxLen2 = 8
INVARIANTS PatienceOK EmitInput
CHECK_DEADLOCK FALSE
