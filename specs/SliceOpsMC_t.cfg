SPECIFICATION Spec
CONSTANT MaxN = 10
INVARIANTS AlgRotateOK AlgPartitionOK EmitInput
CHECK_DEADLOCK FALSE
