-------------------------- MODULE TreeCursorTrace --------------------------
(***************************************************************************)
(* Trace validation for C03.  The first event of a history carries the     *)
(* shape of the real tree as read back through Root/Left/Right cursors; it *)
(* must be a search tree over exactly the keys that were inserted.  Every  *)
(* later event is one call on one of two real cursors and must agree with  *)
(* the abstract moves of TreeCursor (defined by key order and structure).  *)
(***************************************************************************)
EXTENDS TreeCursor, TraceBase

VARIABLES tr, cs     \* the tree; cs[1], cs[2] the two cursors

Prefix(q, stop) == IF stop = 0 \/ stop >= Len(q) THEN q ELSE SubSeq(q, 1, stop)

TInit == TLCSet(1, 0) /\ l = 1 /\ tr = NILT /\ cs = <<Invalid, Invalid>>

TStep ==
  /\ l <= N
  /\ l' = l + 1
  /\ LET e == Trace[l]
         o == IF e.op = "clone" THEN e.c2 ELSE e.c
     IN  /\ e.panic = ""
         /\ CASE e.op = "new" ->
                   /\ tr' = e.shape
                   /\ IsBST(e.shape)
                   /\ Keys(e.shape) = {e.pre[i] : i \in DOMAIN e.pre} \ {e.rem[i] : i \in DOMAIN e.rem}
                   /\ cs' = <<Invalid, Invalid>>
               [] e.op = "fork" ->       \* the tree is replaced by its Clone; the original is changed and dropped
                   /\ e.shape = tr /\ tr' = tr
                   /\ cs' = <<Invalid, Invalid>>
               [] e.op = "cursor" ->
                   /\ tr' = tr
                   /\ cs' = [cs EXCEPT ![e.c] = IF e.key \in Keys(tr) THEN At(PathOf(tr, e.key)) ELSE Invalid]
               [] e.op = "root" ->
                   /\ tr' = tr
                   /\ cs' = [cs EXCEPT ![e.c] = IF tr = NILT THEN Invalid ELSE At(<<>>)]
               [] e.op \in Moves ->
                   /\ tr' = tr
                   /\ cs' = [cs EXCEPT ![e.c] = Move(tr, cs[e.c], e.op)]
               [] e.op = "clone" ->
                   /\ tr' = tr
                   /\ cs' = [cs EXCEPT ![e.c2] = cs[e.c]]
               [] OTHER -> FALSE
         /\ e.cs = <<Status(tr', cs'[1]), Status(tr', cs'[2])>>
         /\ e.ino = AbsInorder(tr', cs'[o])
         /\ e.inopre = Prefix(AbsInorder(tr', cs'[o]), e.stop)

TSkip ==
  /\ l <= N
  /\ ~ENABLED TStep
  /\ Reject(l)
  /\ l' = NextNew(l)
  /\ tr' = NILT /\ cs' = <<Invalid, Invalid>>

TNext == TStep \/ TSkip
TSpec == TInit /\ [][TNext]_<<tr, cs, l>>
=============================================================================
