------------------------------ MODULE TraceBase ------------------------------
(***************************************************************************)
(* Common part of all trace-validation specifications.  The ndjson file    *)
(* named by the environment variable TRACE holds one event per line;       *)
(* histories (sequences of calls on fresh objects) are concatenated, each  *)
(* starting with an event whose op is "new".  l is the index of the next   *)
(* line.  Register 1 keeps the high-water mark of l so that the            *)
(* POSTCONDITION can assert that the whole file was consumed.              *)
(***************************************************************************)
EXTENDS Integers, Sequences, TLC, Json, IOUtils

VARIABLE l

Trace == ndJsonDeserialize(IOEnv.TRACE)
N == Len(Trace)

\* First line of the next history after line i (or N+1).
RECURSIVE NextNewGo(_)
NextNewGo(j) == IF j > N THEN N + 1 ELSE IF Trace[j].op = "new" THEN j ELSE NextNewGo(j + 1)
NextNew(i) == NextNewGo(i + 1)

Reject(i) == PrintT(<<"REJECT", i, Trace[i].h>>)

Mark == TLCSet(1, IF TLCGet(1) > l THEN TLCGet(1) ELSE l)
Finished == TLCGet(1) = N + 1 /\ PrintT(<<"FINISHED", N>>)
=============================================================================
