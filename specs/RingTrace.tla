------------------------------ MODULE RingTrace ------------------------------
(***************************************************************************)
(* Trace validation for the ring.Ring part of C10: after every recorded    *)
(* Of / Join / Pop on real rings, EVERY element's Next, Prev, Len, Each,   *)
(* At(n) and Peek(n) must be what RingSpec's cycles prescribe.             *)
(***************************************************************************)
EXTENDS RingSpec, TraceBase

VARIABLE nxt

TInit == TLCSet(1, 0) /\ l = 1 /\ nxt = <<>>

ElemOK(f, o) ==
  LET id == o[1]
  IN  /\ id \in DOMAIN f
      /\ o[2] = f[id]
      /\ o[3] = Prev(f, id)
      /\ o[4] = Len(Cycle(f, id))
      /\ o[5] = Cycle(f, id)
      /\ \A j \in DOMAIN o[6] :
           LET a == o[6][j]
               want == AAt(f, id, a[1])
           IN  a[2] = want /\ a[3] = want /\ a[4] = (IF want = 0 THEN 0 ELSE 1)

TStep ==
  /\ l <= N
  /\ l' = l + 1
  /\ LET e == Trace[l]
     IN  /\ e.panic = ""
         /\ CASE e.op = "new" -> nxt' = <<>>
              [] e.op = "of" -> nxt' = AOf(nxt, e.vs)
              [] e.op = "join" -> LET a == AJoin(nxt, e.r, e.s) IN nxt' = a.nxt /\ e.ret = a.ret
              [] e.op = "pop" -> nxt' = APop(nxt, e.r) /\ e.ret = e.r
              [] OTHER -> FALSE
         /\ {e.elems[i][1] : i \in DOMAIN e.elems} = DOMAIN nxt'
         /\ \A i \in DOMAIN e.elems : ElemOK(nxt', e.elems[i])

TSkip ==
  /\ l <= N
  /\ ~ENABLED TStep
  /\ Reject(l)
  /\ l' = NextNew(l)
  /\ nxt' = <<>>

TNext == TStep \/ TSkip
TSpec == TInit /\ [][TNext]_<<nxt, l>>
=============================================================================
