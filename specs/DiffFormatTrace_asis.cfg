SPECIFICATION TSpec
CONSTANT Conv = {"F5","F6"}
INVARIANT Mark
POSTCONDITION Finished
CHECK_DEADLOCK FALSE
