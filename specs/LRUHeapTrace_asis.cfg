SPECIFICATION TSpec
CONSTANT Known = {"F1", "F2"}
INVARIANT Mark
POSTCONDITION Finished
CHECK_DEADLOCK FALSE
