SPECIFICATION Spec
CONSTANTS
  Keys = {1, 2, 3}
  Vals = {1}
  Iters = {1}
  Probe = {0, 1, 2, 3, 4}
  Rev = FALSE
VIEW View
INVARIANTS ItersSane IterationOK SeekPrevOK
ACTION_CONSTRAINT Emit
CHECK_DEADLOCK FALSE
