SPECIFICATION Spec
CONSTANTS
  Keys = {1, 2, 3, 4}
  Vals = {1,2}
  Iters = {1,2}
  Probe = {0, 1, 2, 3, 4, 5}
  Rev = FALSE
VIEW View
INVARIANTS ItersSane IterationOK SeekPrevOK
ACTION_CONSTRAINT Emit
CHECK_DEADLOCK FALSE
