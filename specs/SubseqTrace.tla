----------------------------- MODULE SubseqTrace -----------------------------
(***************************************************************************)
(* Record validation for C12: results of LCS/LCSFunc, LIS/LISFunc and      *)
(* LNDS/LNDSFunc on the real code against the declarative optimum, and     *)
(* the inputs as they are after the call.                                  *)
(***************************************************************************)
EXTENDS Subseq, TraceBase

TInit == TLCSet(1, 0) /\ l = 1

TStep ==
  /\ l <= N
  /\ l' = l + 1
  /\ LET e == Trace[l]
     IN  /\ e.panic = ""
         /\ CASE e.kind = "lcs" ->
                   /\ LcsOK(e.out, e.a, e.b) /\ LcsOK(e.outf, e.a, e.b)
                   /\ e.a2 = e.a /\ e.b2 = e.b
              [] e.kind = "lis" ->
                   LET optS == OptLen(e.vs, TRUE, e.rev)
                       optN == OptLen(e.vs, FALSE, e.rev)
                       ok(out, strict, opt) == IsSubseq(out, e.vs) /\ Chain(out, strict, e.rev) /\ Len(out) = opt
                   IN  /\ ok(e.lis, TRUE, optS) /\ ok(e.lisf, TRUE, optS)
                       /\ ok(e.lnds, FALSE, optN) /\ ok(e.lndsf, FALSE, optN)
                       /\ e.vs2 = e.vs
              [] OTHER -> FALSE

TSkip == l <= N /\ ~ENABLED TStep /\ Reject(l) /\ l' = l + 1
TNext == TStep \/ TSkip
TSpec == TInit /\ [][TNext]_<<l>>
=============================================================================
