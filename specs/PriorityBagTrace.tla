-------------------------- MODULE PriorityBagTrace --------------------------
(***************************************************************************)
(* Abstract specification of heapq.Queue and trace validation for C05.     *)
(* The queue is a bag of elements <<priority, id>> (ids distinct among     *)
(* live elements) with a comparison direction.  Front and Pop may yield    *)
(* ANY element that is minimal under the current comparison; Remove(i)     *)
(* yields the element Peek(i) showed; contents are conserved.  Nothing     *)
(* about arrays or heap order here: this module is the property.           *)
(***************************************************************************)
EXTENDS TraceBase, FiniteSets

VARIABLES bag, dir

ZeroE == <<0, 0>>
LessP(d, a, b) == IF d = 1 THEN a[1] < b[1] ELSE a[1] > b[1]
Minimal(x, S, d) == \A y \in S : ~LessP(d, y, x)
SetOf(s) == {s[i] : i \in DOMAIN s}

SortedPerm(d, in, out) ==
  /\ Len(in) = Len(out)
  /\ \A x \in SetOf(in) \cup SetOf(out) :
       Cardinality({i \in DOMAIN in : in[i] = x}) = Cardinality({i \in DOMAIN out : out[i] = x})
  /\ \A i \in 1..(Len(out) - 1) : ~LessP(d, out[i + 1], out[i])

ObsOK(e, S, d) ==
  /\ e.panic = ""
  /\ e.len = Cardinality(S)
  /\ e.empty = (S = {})
  /\ SetOf(e.arr) = S /\ Len(e.arr) = Cardinality(S)      \* conservation, via Each
  /\ e.front = (IF S = {} THEN ZeroE ELSE e.arr[1])
  /\ (S # {} => e.front \in S /\ Minimal(e.front, S, d))    \* Front is a minimum

TInit == TLCSet(1, 0) /\ l = 1 /\ bag = {} /\ dir = 1

TStep ==
  /\ l <= N
  /\ l' = l + 1
  /\ LET e == Trace[l]
     IN  /\ CASE e.op = "new" -> bag' = SetOf(e.vs) /\ dir' = e.dir /\ Cardinality(SetOf(e.vs)) = Len(e.vs)
               [] e.op = "add" -> bag' = bag \cup {e.e} /\ dir' = dir /\ e.e \notin bag
               [] e.op = "pop" ->
                    /\ dir' = dir
                    /\ IF bag = {} THEN ~e.rok /\ e.ret = ZeroE /\ bag' = bag
                       ELSE e.rok /\ e.ret \in bag /\ Minimal(e.ret, bag, dir) /\ bag' = bag \ {e.ret}
               [] e.op = "remove" ->
                    /\ dir' = dir
                    /\ IF e.i >= Cardinality(bag) THEN ~e.rok /\ e.ret = ZeroE /\ bag' = bag /\ e.peek[3] = 0
                       ELSE /\ e.rok /\ e.peek[3] = 1 /\ e.ret = <<e.peek[1], e.peek[2]>>
                            /\ e.ret \in bag /\ bag' = bag \ {e.ret}
                            /\ (e.i = 0 => Minimal(e.ret, bag, dir))
               [] e.op = "set" -> bag' = SetOf(e.vs) /\ dir' = dir
               [] e.op = "reorder" -> bag' = bag /\ dir' = e.dir
               [] e.op = "clear" -> bag' = {} /\ dir' = dir
               [] e.op = "sort" -> bag' = bag /\ dir' = dir /\ SortedPerm(e.dir, e.vs, e.out)
               [] OTHER -> FALSE
         \* a blind event carries the call's own result only (no observer was called after it)
         /\ (e.op # "sort" /\ e.blind = 0 => ObsOK(e, bag', dir'))
         /\ e.panic = ""

TSkip ==
  /\ l <= N
  /\ ~ENABLED TStep
  /\ Reject(l)
  /\ l' = NextNew(l)
  /\ bag' = {} /\ dir' = 1

TNext == TStep \/ TSkip
TSpec == TInit /\ [][TNext]_<<bag, dir, l>>
=============================================================================
