----------------------------- MODULE DequeTrace -----------------------------
(***************************************************************************)
(* Trace validation for C07: every line of the ndjson file named by the    *)
(* environment variable TRACE is one public call on a real queue.Queue,    *)
(* logged at its return with its result and the observations made          *)
(* afterwards.  Each line must be a step of the abstract Deque             *)
(* specification.  A history that cannot be matched is reported            *)
(* (REJECT line) and skipped, so that the rest of the file is still        *)
(* checked.                                                                *)
(***************************************************************************)
EXTENDS Deque, TLC, Json, IOUtils

VARIABLE l   \* index of the next trace line

Trace == ndJsonDeserialize(IOEnv.TRACE)
N == Len(Trace)

Min2(a, b) == IF a < b THEN a ELSE b

ObsOK(e, s) ==
  /\ e.len = Len(s)
  /\ e.empty = (s = <<>>)
  /\ e.front = FrontOf(s)
  /\ e.panic = ""
  /\ (e.full = 1 =>
        /\ e.slice = s
        /\ e.each = (IF e.stop = 0 THEN s ELSE SubSeq(s, 1, Min2(e.stop, Len(s)))))
  /\ \A i \in 1..Len(e.peeks) :
       LET p == e.peeks[i]
       IN  PeekAt(s, p[1]) = [v |-> p[2], ok |-> (p[3] = 1)]

TInit == TLCSet(1, 0) /\ l = 1 /\ DInit

TStep ==
  /\ l <= N
  /\ l' = l + 1
  /\ LET e == Trace[l]
     IN  /\ CASE e.op = "new"     -> q' = <<>> /\ res' = NoRes   \* a fresh queue
               [] e.op = "add"     -> DAdd(e.v)
               [] e.op = "push"    -> DPush(e.v)
               [] e.op = "pop"     -> DPop
               [] e.op = "poplast" -> DPopLast
               [] e.op = "clear"   -> DClear
               [] OTHER            -> FALSE
         /\ (e.op \in {"pop", "poplast"} => res'.v = e.rv /\ res'.ok = e.rok)
         /\ ObsOK(e, q')

\* First line of the next history (or N+1).
NextNew(i) ==
  CHOOSE j \in (i + 1)..(N + 1) :
    /\ (j = N + 1 \/ Trace[j].op = "new")
    /\ \A k \in (i + 1)..(j - 1) : Trace[k].op # "new"

TSkip ==
  /\ l <= N
  /\ ~ENABLED TStep
  /\ PrintT(<<"REJECT", l, Trace[l].h>>)
  /\ l' = NextNew(l)
  /\ q' = <<>> /\ res' = NoRes

TNext == TStep \/ TSkip
TSpec == TInit /\ [][TNext]_<<q, res, l>>

Mark == TLCSet(1, IF TLCGet(1) > l THEN TLCGet(1) ELSE l)
Finished == TLCGet(1) = N + 1 /\ PrintT(<<"FINISHED", N>>)
=============================================================================
