----------------------------- MODULE DequeTrace -----------------------------
(***************************************************************************)
(* Trace validation for C07: every line of the ndjson file named by the    *)
(* environment variable TRACE is one public call on a real queue.Queue,    *)
(* logged at its return with its result and the observations made          *)
(* afterwards.  Each line must be a step of the abstract Deque             *)
(* specification.  A history that cannot be matched is reported            *)
(* (REJECT line) and skipped, so that the rest of the file is still        *)
(* checked.                                                                *)
(***************************************************************************)
EXTENDS Deque, TraceBase

Min2(a, b) == IF a < b THEN a ELSE b

\* e.full: 1 = everything observed; 0 = no whole-contents listing (large queues);
\* 2 = nothing but the listed Peek offsets (possibly none) was looked at after the call --
\* the container must not depend on being observed to put itself in order
ObsOK(e, s) ==
  /\ e.panic = ""
  /\ (e.full # 2 =>
        /\ e.len = Len(s)
        /\ e.empty = (s = <<>>)
        /\ e.front = FrontOf(s))
  /\ (e.full = 1 =>
        /\ e.slice = s
        /\ e.each = (IF e.stop = 0 THEN s ELSE SubSeq(s, 1, Min2(e.stop, Len(s)))))
  /\ \A i \in 1..Len(e.peeks) :
       LET p == e.peeks[i]
       IN  PeekAt(s, p[1]) = [v |-> p[2], ok |-> (p[3] = 1)]

TInit == TLCSet(1, 0) /\ l = 1 /\ DInit

TStep ==
  /\ l <= N
  /\ l' = l + 1
  /\ LET e == Trace[l]
     IN  /\ CASE e.op = "new"     -> q' = <<>> /\ res' = NoRes   \* a fresh queue
               [] e.op = "add"     -> DAdd(e.v)
               [] e.op = "push"    -> DPush(e.v)
               [] e.op = "pop"     -> DPop
               [] e.op = "poplast" -> DPopLast
               [] e.op = "clear"   -> DClear
               [] OTHER            -> FALSE
         /\ (e.op \in {"pop", "poplast"} => res'.v = e.rv /\ res'.ok = e.rok)
         /\ ObsOK(e, q')

TSkip ==
  /\ l <= N
  /\ ~ENABLED TStep
  /\ Reject(l)
  /\ l' = NextNew(l)
  /\ q' = <<>> /\ res' = NoRes

TNext == TStep \/ TSkip
TSpec == TInit /\ [][TNext]_<<q, res, l>>

=============================================================================
