------------------------------- MODULE HeapMC -------------------------------
(***************************************************************************)
(* State machine over Heap.tla for exhaustive checking (C05, C06):         *)
(*   data, dir  : the queue                                                *)
(*   bag        : the abstract contents (set of elements; ids are distinct *)
(*                among live elements)                                     *)
(*   pos, trk   : last reported position per id; ids that entered through  *)
(*                Add or Set and are still held                            *)
(*   res        : result of the last call                                  *)
(* With Known = {} TLC checks the corrected design: min-at-front, heap     *)
(* order, conservation, position tracking.  With Known = {"F1","F2"} (the  *)
(* code as it is) FrontIsMin is refuted by a short counterexample while    *)
(* conservation and position tracking still hold.                          *)
(***************************************************************************)
EXTENDS Heap, Json

CONSTANTS Prios,     \* priorities used by Add
          MaxLen,    \* bound on the queue length
          InitSeqs,  \* priority sequences given to NewWithData / Set
          DistinctP  \* TRUE: never hold two elements of equal priority

\* values for InitSeqs (cfg files cannot spell tuples)
Seq3 == {<<>>, <<2>>, <<3, 1>>, <<1, 2, 3>>, <<3, 2, 1, 2>>, <<2, 3, 1, 1, 3>>}
SeqD == {<<>>, <<3>>, <<4, 1>>, <<5, 2, 6, 1>>, <<6, 5, 4, 3, 2, 1>>}

VARIABLES data, dir, bag, pos, trk, res, path
hvars == <<data, dir, bag, pos, trk, res, path>>

\* the element with priority p: a fresh id (least unused positive integer)
Ids == {e[2] : e \in bag}
FreshId == CHOOSE i \in 1..(Cardinality(bag) + 1) : i \notin Ids
Elems(ps) == [i \in 1..Len(ps) |-> <<ps[i], i>>]

ApplyRep(p, rep) ==
  LET RECURSIVE go(_, _)
      go(f, i) == IF i > Len(rep) THEN f ELSE go((rep[i][1] :> rep[i][2]) @@ f, i + 1)
  IN  go(p, 1)

OpRec(name, e, i, vs) == [op |-> name, e |-> e, i |-> i, vs |-> vs, dir |-> dir, upd |-> 1]

Init ==
  \E ps \in InitSeqs, dr \in {1, -1} :
    LET s == Heapify(dr, [d |-> Elems(ps), rep |-> <<>>])
    IN  /\ data = s.d /\ dir = dr
        /\ bag = {Elems(ps)[i] : i \in 1..Len(ps)}
        /\ pos = ApplyRep(<<>>, s.rep) /\ trk = {}
        /\ res = <<>>
        /\ path = <<[op |-> "new", e |-> <<0, 0>>, i |-> 0, vs |-> Elems(ps), dir |-> dr, upd |-> 1]>>

HAdd(p) ==
  /\ Len(data) < MaxLen
  /\ (DistinctP => \A e \in bag : e[1] # p)
  /\ LET v == <<p, FreshId>>
         r == AddTo(dir, [d |-> data, rep |-> <<>>], v)
     IN  /\ data' = r.s.d /\ bag' = bag \cup {v}
         /\ pos' = ApplyRep(pos, r.s.rep) /\ trk' = trk \cup {v[2]}
         /\ res' = <<"add", r.i, v>>
         /\ path' = Append(path, OpRec("add", v, 0, <<>>))
  /\ dir' = dir

HRemove(i) ==
  /\ i < Len(data)
  /\ LET r == PopAt(dir, [d |-> data, rep |-> <<>>], i)
     IN  /\ data' = r.s.d /\ bag' = bag \ {r.out}
         /\ pos' = ApplyRep(pos, r.s.rep) /\ trk' = trk \ {r.out[2]}
         /\ res' = <<"remove", i, r.out, Get(data, i)>>
         /\ path' = Append(path, OpRec(IF i = 0 THEN "pop" ELSE "remove", <<0, 0>>, i, <<>>))
  /\ dir' = dir

HSet(ps) ==
  /\ LET s == SetAll(dir, Elems(ps))
     IN  /\ data' = s.d /\ bag' = {Elems(ps)[i] : i \in 1..Len(ps)}
         /\ pos' = ApplyRep(pos, s.rep) /\ trk' = {i : i \in 1..Len(ps)}
         /\ res' = <<"set">>
         /\ path' = Append(path, OpRec("set", <<0, 0>>, 0, Elems(ps)))
  /\ dir' = dir

HReorder ==
  /\ dir' = 0 - dir
  /\ LET s == Heapify(0 - dir, [d |-> data, rep |-> <<>>])
     IN  /\ data' = s.d /\ pos' = ApplyRep(pos, s.rep)
  /\ UNCHANGED <<bag, trk>>
  /\ res' = <<"reorder">>
  /\ path' = Append(path, [OpRec("reorder", <<0, 0>>, 0, <<>>) EXCEPT !.dir = 0 - dir])

HClear ==
  /\ data' = <<>> /\ bag' = {} /\ trk' = {} /\ UNCHANGED <<dir, pos>>
  /\ res' = <<"clear">>
  /\ path' = Append(path, OpRec("clear", <<0, 0>>, 0, <<>>))

Next ==
  \/ \E p \in Prios : HAdd(p)
  \/ \E i \in 0..(MaxLen - 1) : HRemove(i)
  \/ \E ps \in InitSeqs : HSet(ps)
  \/ HReorder
  \/ HClear
Spec == Init /\ [][Next]_hvars

(* ---- invariants -------------------------------------------------------- *)
Conserved == {data[i] : i \in 1..Len(data)} = bag /\ Cardinality(bag) = Len(data)
FrontIsMin == FrontMinimal(dir, data)
HeapOrder == HeapOrdered(dir, data)
\* Remove(i) returns what Peek(i) showed; Pop returns a minimal element
ResultOK ==
  res # <<>> /\ res[1] = "remove" =>
     /\ res[3] = res[4]
     /\ (res[2] = 0 => \A e \in bag : ~Less(dir, e, res[3]))
\* C06: tracked elements sit where they were last reported; Add returns the offset
PosOK ==
  /\ \A i \in 1..Len(data) : data[i][2] \in trk => pos[data[i][2]] = i - 1
  /\ (res # <<>> /\ res[1] = "add" => Get(data, res[2]) = res[3])

\* Views forget element ids (fresh per insertion): a state is the array of
\* priorities, which elements are tracked and where they were last reported.
View == <<[i \in 1..Len(data) |->
            <<data[i][1], data[i][2] \in trk, IF data[i][2] \in trk THEN pos[data[i][2]] ELSE 0 - 1>>], dir>>
Emit == PrintT(ToJson(path'))
=============================================================================
