SPECIFICATION Spec
CONSTANTS
  Sym = {1, 2, 3}
  MaxLen = 3
  Sym2 = {1, 2}
  MaxLen2 = 5
  MaxN = 3
  AsIs = FALSE
INVARIANTS ContextOK UnifyOK
CHECK_DEADLOCK FALSE
