------------------------------ MODULE SliceOps ------------------------------
(***************************************************************************)
(* Specification of the slice utilities (C17): what Partition, Rotate,     *)
(* Chunks, Batches, Head, Tail, Stripe, At and PtrAt must return for every *)
(* argument, including whether they may panic, and transcriptions of the   *)
(* two non-trivial algorithms (two-cursor partition, gcd cycle-chasing     *)
(* rotation) for model checking.  A returned subslice is described by      *)
(* [off, len, cap]: offset of its first element in the input, length,      *)
(* capacity.  "Capacity-clipped" means cap = len.                          *)
(***************************************************************************)
EXTENDS Integers, Sequences, FiniteSets, TLC

Min2(a, b) == IF a < b THEN a ELSE b
IsPerm(a, b) == Len(a) = Len(b) /\ \A x \in {a[i] : i \in DOMAIN a} \cup {b[i] : i \in DOMAIN b} :
                  Cardinality({i \in DOMAIN a : a[i] = x}) = Cardinality({i \in DOMAIN b : b[i] = x})
Kept(vs, keep) == SelectSeq(vs, LAMBDA v : v \in keep)

\* Partition(vs, keep): r = [out, off, len, cap], after = vs afterwards
PartitionOK(vs, keep, r, after) ==
  /\ r.out = Kept(vs, keep)
  /\ r.len = Len(r.out) /\ r.cap = r.len                     \* capacity-clipped ...
  /\ (r.len > 0 => r.off = 0)                                \* ... prefix of the slice
  /\ IsPerm(after, vs)
  /\ SubSeq(after, 1, r.len) = r.out

\* Rotate(ss, k): element at index i moves to (i + k) mod n, for -n <= k <= n
RotateAllowed(n, k) == 0 - n <= k /\ k <= n
Rotated(ss, k) == LET n == Len(ss) IN [j \in 1..n |-> ss[((j - 1 - k) % n) + 1]]
RotateOK(ss, k, panicked, after) ==
  IF RotateAllowed(Len(ss), k) THEN ~panicked /\ (Len(ss) > 0 => after = Rotated(ss, k)) /\ (Len(ss) = 0 => after = <<>>)
  ELSE panicked

\* consecutive, clipped subslices covering the input
Covering(n, parts) ==
  /\ \A i \in DOMAIN parts : parts[i].cap = parts[i].len
  /\ \A i \in DOMAIN parts : parts[i].off = (IF i = 1 THEN 0 ELSE parts[i - 1].off + parts[i - 1].len)
  /\ (parts = <<>> => n = 0)
  /\ (parts # <<>> => parts[Len(parts)].off + parts[Len(parts)].len = n)

ChunksOK(n, size, panicked, parts) ==
  IF size < 0 THEN panicked
  ELSE /\ ~panicked /\ Covering(n, parts) /\ parts # <<>>
       /\ (size = 0 => Len(parts) = 1)
       /\ (size > 0 => /\ \A i \in 1..(Len(parts) - 1) : parts[i].len = size
                       /\ parts[Len(parts)].len <= size
                       /\ (n > 0 => parts[Len(parts)].len > 0))

BatchesOK(n, k, panicked, parts) ==
  IF k < 0 THEN panicked
  ELSE /\ ~panicked
       /\ Len(parts) = (IF k = 0 THEN 0 ELSE Min2(k, n))
       /\ (k > 0 => Covering(n, parts))
       /\ \A i, j \in DOMAIN parts : parts[i].len - parts[j].len \in {0 - 1, 0, 1}

HeadOK(vs, n, r) == r.out = SubSeq(vs, 1, Min2(n, Len(vs))) /\ (r.len > 0 => r.off = 0)
TailOK(vs, n, r) == LET m == Min2(n, Len(vs)) IN r.out = SubSeq(vs, Len(vs) - m + 1, Len(vs)) /\ (r.len > 0 => r.off = Len(vs) - m)
StripeOK(vss, i, out) ==
  LET has == SelectSeq(vss, LAMBDA v : i < Len(v)) IN out = [j \in DOMAIN has |-> has[j][i + 1]]

IndexOK(n, i) == 0 - n <= i /\ i < n
Norm(n, i) == IF i < 0 THEN i + n ELSE i
AtOK(vs, i, panicked, v) == IF IndexOK(Len(vs), i) THEN ~panicked /\ v = vs[Norm(Len(vs), i) + 1] ELSE panicked
PtrAtOK(vs, i, panicked, r) ==       \* r = [nil, off, v]
  /\ ~panicked
  /\ IF IndexOK(Len(vs), i) THEN ~r.nil /\ r.off = Norm(Len(vs), i) /\ r.v = vs[r.off + 1] ELSE r.nil

(* ---- transcription of the algorithms ----------------------------------- *)
RECURSIVE Gcd(_, _)
Gcd(a, b) == IF b = 0 THEN a ELSE Gcd(b, a % b)
Put(s, i, v) == [s EXCEPT ![i + 1] = v]           \* 0-based store
RECURSIVE Chase(_, _, _, _, _)
Chase(ss, k, j, i, cur) ==                        \* one cycle, starting at j
  LET n == Len(ss) next == (i + k) % n nextv == ss[next + 1] s1 == Put(ss, next, cur)
  IN  IF next = j THEN s1 ELSE Chase(s1, k, j, next, nextv)
RECURSIVE Cycles(_, _, _, _)
Cycles(ss, k, j, g) == IF j >= g THEN ss ELSE Cycles(Chase(ss, k, j, j, ss[j + 1]), k, j + 1, g)
AlgRotate(ss, k0) ==
  LET n == Len(ss) k == IF k0 < 0 THEN k0 + n ELSE k0
  IN  IF k = 0 \/ k = n THEN ss ELSE Cycles(ss, k, 0, Gcd(k, n))

RECURSIVE SkipKeep(_, _, _)
SkipKeep(vs, keep, i) == IF i < Len(vs) /\ vs[i + 1] \in keep THEN SkipKeep(vs, keep, i + 1) ELSE i
RECURSIVE SkipDrop(_, _, _)
SkipDrop(vs, keep, j) == IF j < Len(vs) /\ vs[j + 1] \notin keep THEN SkipDrop(vs, keep, j + 1) ELSE j
RECURSIVE PartLoop(_, _, _, _)
PartLoop(vs, keep, i, j0) ==
  IF i >= Len(vs) THEN [vs |-> vs, n |-> i]
  ELSE LET j == SkipDrop(vs, keep, j0)
       IN  IF j = Len(vs) THEN [vs |-> vs, n |-> i]
           ELSE PartLoop([vs EXCEPT ![i + 1] = vs[j + 1], ![j + 1] = vs[i + 1]], keep, i + 1, j + 1)
AlgPartition(vs, keep) ==
  IF vs = <<>> THEN [vs |-> vs, n |-> 0]
  ELSE LET i == SkipKeep(vs, keep, 0) IN PartLoop(vs, keep, i, i + 1)
=============================================================================
