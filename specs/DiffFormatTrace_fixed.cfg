SPECIFICATION TSpec
CONSTANT Conv = {}
INVARIANT Mark
POSTCONDITION Finished
CHECK_DEADLOCK FALSE
