SPECIFICATION Spec
CONSTANTS
  Sym = {1, 2, 3}
  MaxLen = 5
  Sym2 = {1, 2}
  MaxLen2 = 7
INVARIANTS AlgScriptOK AlgLcsOK LcsSymmetric EmitInput
CHECK_DEADLOCK FALSE
