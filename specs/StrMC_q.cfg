SPECIFICATION Spec
CONSTANT MaxUnits = 3
INVARIANTS ValidityOK EmitInput
CHECK_DEADLOCK FALSE
