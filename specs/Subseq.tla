------------------------------- MODULE Subseq -------------------------------
(***************************************************************************)
(* Specification of slice.LIS / LNDS (C12): a longest strictly increasing  *)
(* (LIS) or non-decreasing (LNDS) subsequence under a comparison (natural  *)
(* or reversed), by the declarative quadratic definition; and a            *)
(* transcription of the patience algorithm of slice/lis.go (tails, prev,   *)
(* left-leaning binary search for LIS, right-leaning for LNDS).            *)
(***************************************************************************)
EXTENDS EditScript

Lt(rev, a, b) == IF rev THEN a > b ELSE a < b          \* cmp(a, b) < 0
Follows(strict, rev, a, b) == IF strict THEN Lt(rev, a, b) ELSE ~Lt(rev, b, a)   \* b may come after a

RECURSIVE BestGo(_, _, _, _, _)
BestGo(vs, strict, rev, i, best) ==     \* best[j] = longest chain ending at j, for j < i
  IF i > Len(vs) THEN best
  ELSE LET prevs == {best[j] : j \in {k \in 1..(i - 1) : Follows(strict, rev, vs[k], vs[i])}}
           b == 1 + (IF prevs = {} THEN 0 ELSE CHOOSE x \in prevs : \A y \in prevs : y <= x)
       IN  BestGo(vs, strict, rev, i + 1, Append(best, b))
OptLen(vs, strict, rev) ==
  LET best == BestGo(vs, strict, rev, 1, <<>>)
  IN  IF vs = <<>> THEN 0 ELSE CHOOSE x \in {best[i] : i \in DOMAIN best} : \A i \in DOMAIN best : best[i] <= x

Chain(out, strict, rev) == \A i \in 1..(Len(out) - 1) : Follows(strict, rev, out[i], out[i + 1])
SubseqOK(out, vs, strict, rev) ==
  /\ IsSubseq(out, vs)
  /\ Chain(out, strict, rev)
  /\ Len(out) = OptLen(vs, strict, rev)

(* ---- transcription of slice/lis.go (0-based indices as in the code) ---- *)
V(vs, i) == vs[i + 1]
\* first position p in tails[0..n-1] with NOT Pred(tails[p]); n if none (binary search result)
RECURSIVE FirstNot(_, _, _, _, _, _)
FirstNot(vs, tails, n, p, x, pred) ==
  IF p >= n THEN n ELSE IF pred[V(vs, tails[p + 1]), x] THEN FirstNot(vs, tails, n, p + 1, x, pred) ELSE p

RECURSIVE PatGo(_, _, _, _, _, _)
PatGo(vs, strict, rev, i, tails, prev) ==        \* tails, prev: sequences (index + 1)
  IF i >= Len(vs) THEN [tails |-> tails, prev |-> prev]
  ELSE LET x == V(vs, i)
           bestTail == tails[Len(tails)]
           extend == IF strict THEN Lt(rev, V(vs, bestTail), x) ELSE ~Lt(rev, x, V(vs, bestTail))
       IN  IF extend THEN PatGo(vs, strict, rev, i + 1, Append(tails, i), Append(prev, bestTail))
           ELSE LET \* LIS: BinarySearchFunc = first idx with vs[idx] >= x; LNDS: bisectRight = first idx with vs[idx] > x
                    pred == [a \in {vs[k] : k \in DOMAIN vs}, b \in {vs[k] : k \in DOMAIN vs} |->
                               IF strict THEN Lt(rev, a, b) ELSE ~Lt(rev, b, a)]
                    r == FirstNot(vs, tails, Len(tails) - 1, 0, x, pred)
                IN  PatGo(vs, strict, rev, i + 1, [tails EXCEPT ![r + 1] = i],
                          Append(prev, IF r = 0 THEN 0 - 1 ELSE tails[r]))
RECURSIVE Back(_, _, _, _)
Back(vs, prev, idx, n) == IF n = 0 THEN <<>> ELSE Append(Back(vs, prev, prev[idx + 1], n - 1), V(vs, idx))
Patience(vs, strict, rev) ==
  IF vs = <<>> THEN <<>>
  ELSE LET r == PatGo(vs, strict, rev, 1, <<0>>, <<0 - 1>>)
       IN  Back(vs, r.prev, r.tails[Len(r.tails)], Len(r.tails))
=============================================================================
