------------------------------- MODULE Subseq -------------------------------
(***************************************************************************)
(* Specification of slice.LIS / LNDS (C12): a longest strictly increasing  *)
(* (LIS) or non-decreasing (LNDS) subsequence under a comparison (natural  *)
(* or reversed), by the declarative quadratic definition; and a            *)
(* transcription of the patience algorithm of slice/lis.go (tails, prev,   *)
(* left-leaning binary search for LIS, right-leaning for LNDS).            *)
(***************************************************************************)
EXTENDS EditScript

Lt(rev, a, b) == IF rev THEN a > b ELSE a < b          \* cmp(a, b) < 0
Follows(strict, rev, a, b) == IF strict THEN Lt(rev, a, b) ELSE ~Lt(rev, b, a)   \* b may come after a

\* best[j] = length of a longest chain ending at position j:
\*   best[i] = 1 + max({0} \cup {best[j] : j < i, vs[i] may follow vs[j]})
\* (the maxima are taken by linear scans: CHOOSE-with-forall is quadratic in TLC and the
\*  thorough tier validates tens of thousands of inputs of 100+ elements)
RECURSIVE MaxPrev(_, _, _, _, _, _, _)
MaxPrev(vs, strict, rev, best, i, j, acc) ==
  IF j >= i THEN acc
  ELSE MaxPrev(vs, strict, rev, best, i, j + 1,
               IF best[j] > acc /\ Follows(strict, rev, vs[j], vs[i]) THEN best[j] ELSE acc)
RECURSIVE BestGo(_, _, _, _, _)
BestGo(vs, strict, rev, i, best) ==     \* best[j] for j < i
  IF i > Len(vs) THEN best
  ELSE BestGo(vs, strict, rev, i + 1, Append(best, 1 + MaxPrev(vs, strict, rev, best, i, 1, 0)))
RECURSIVE SeqMax(_, _, _)
SeqMax(q, i, acc) == IF i > Len(q) THEN acc ELSE SeqMax(q, i + 1, IF q[i] > acc THEN q[i] ELSE acc)
OptLen(vs, strict, rev) == SeqMax(BestGo(vs, strict, rev, 1, <<>>), 1, 0)

Chain(out, strict, rev) == \A i \in 1..(Len(out) - 1) : Follows(strict, rev, out[i], out[i + 1])
SubseqOK(out, vs, strict, rev) ==
  /\ IsSubseq(out, vs)
  /\ Chain(out, strict, rev)
  /\ Len(out) = OptLen(vs, strict, rev)

(* ---- transcription of slice/lis.go (0-based indices as in the code) ---- *)
V(vs, i) == vs[i + 1]
\* first position p in tails[0..n-1] with NOT Pred(tails[p]); n if none (binary search result)
RECURSIVE FirstNot(_, _, _, _, _, _)
FirstNot(vs, tails, n, p, x, pred) ==
  IF p >= n THEN n ELSE IF pred[V(vs, tails[p + 1]), x] THEN FirstNot(vs, tails, n, p + 1, x, pred) ELSE p

RECURSIVE PatGo(_, _, _, _, _, _)
PatGo(vs, strict, rev, i, tails, prev) ==        \* tails, prev: sequences (index + 1)
  IF i >= Len(vs) THEN [tails |-> tails, prev |-> prev]
  ELSE LET x == V(vs, i)
           bestTail == tails[Len(tails)]
           extend == IF strict THEN Lt(rev, V(vs, bestTail), x) ELSE ~Lt(rev, x, V(vs, bestTail))
       IN  IF extend THEN PatGo(vs, strict, rev, i + 1, Append(tails, i), Append(prev, bestTail))
           ELSE LET \* LIS: BinarySearchFunc = first idx with vs[idx] >= x; LNDS: bisectRight = first idx with vs[idx] > x
                    pred == [a \in {vs[k] : k \in DOMAIN vs}, b \in {vs[k] : k \in DOMAIN vs} |->
                               IF strict THEN Lt(rev, a, b) ELSE ~Lt(rev, b, a)]
                    r == FirstNot(vs, tails, Len(tails) - 1, 0, x, pred)
                IN  PatGo(vs, strict, rev, i + 1, [tails EXCEPT ![r + 1] = i],
                          Append(prev, IF r = 0 THEN 0 - 1 ELSE tails[r]))
RECURSIVE Back(_, _, _, _)
Back(vs, prev, idx, n) == IF n = 0 THEN <<>> ELSE Append(Back(vs, prev, prev[idx + 1], n - 1), V(vs, idx))
Patience(vs, strict, rev) ==
  IF vs = <<>> THEN <<>>
  ELSE LET r == PatGo(vs, strict, rev, 1, <<0>>, <<0 - 1>>)
       IN  Back(vs, r.prev, r.tails[Len(r.tails)], Len(r.tails))
=============================================================================
