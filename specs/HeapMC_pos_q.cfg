SPECIFICATION Spec
CONSTANTS
  Known = {"F1", "F2"}
  Prios = {1, 2, 3, 4, 5}
  MaxLen = 5
  InitSeqs <- SeqD
  DistinctP = TRUE
VIEW View
INVARIANTS Conserved PosOK
ACTION_CONSTRAINT Emit
CHECK_DEADLOCK FALSE
