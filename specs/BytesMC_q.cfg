SPECIFICATION Spec
CONSTANT MaxLen = 8
INVARIANTS AlgLZOK AlgTZOK EmitInput
CHECK_DEADLOCK FALSE
