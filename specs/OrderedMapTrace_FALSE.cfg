SPECIFICATION TSpec
CONSTANT Rev = FALSE
INVARIANT Mark
POSTCONDITION Finished
CHECK_DEADLOCK FALSE
