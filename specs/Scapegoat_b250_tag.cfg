SPECIFICATION SSpec
CONSTANTS
  Beta = 250
  Classes = {1, 2, 3}
  Tags = {1, 2}
  Rev = TRUE
VIEW TagView
INVARIANTS NoPanic IsBST SizeOK Refines Balanced InorderAgrees
ACTION_CONSTRAINT Emit
CHECK_DEADLOCK FALSE
