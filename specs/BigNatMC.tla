------------------------------ MODULE BigNatMC ------------------------------
(***************************************************************************)
(* The interval filter of BigNat!PowLE against the exact comparison, on a  *)
(* grid of balance factors, exponents and bounds that includes, for every  *)
(* (beta, d), the two integers around the exact boundary value.            *)
(***************************************************************************)
EXTENDS BigNat, TLC

CONSTANTS Betas, Ds
BetasQ == {0, 250, 500, 821, 999}
DsQ == (0..12) \cup {40, 100}
BetasT == {0, 1, 2, 250, 333, 500, 750, 821, 990, 998, 999}
DsT == (0..24) \cup {30, 40, 64, 100, 150, 200}
\* (the grid (0..24) + {30,40,64,100,150,200,300,399} over BetasT was run once: 17 min 48 s, no disagreement)
\* smallest P with PowLEExact(beta, d, P): found by doubling then bisection
RECURSIVE Bis(_, _, _, _)
Bis(beta, d, lo, hi) ==   \* invariant: ~Exact(lo), Exact(hi)
  IF hi - lo <= 1 THEN hi
  ELSE LET mid == (lo + hi) \div 2
       IN  IF PowLEExact(beta, d, mid) THEN Bis(beta, d, lo, mid) ELSE Bis(beta, d, mid, hi)
RECURSIVE Dbl(_, _, _)
Dbl(beta, d, hi) == IF hi > 100000 \/ PowLEExact(beta, d, hi) THEN hi ELSE Dbl(beta, d, 2 * hi)
Boundary(beta, d) == LET hi == Dbl(beta, d, 1) IN IF hi > 100000 THEN hi ELSE IF hi = 1 THEN 1 ELSE Bis(beta, d, hi \div 2, hi)

Agree(beta, d, P) == PowLE(beta, d, P) = PowLEExact(beta, d, P)

VARIABLE done
Init == done = FALSE

GridOK ==
  \A beta \in Betas : \A d \in Ds :
     LET b == Boundary(beta, d)
     IN  \A P \in {0, 1, 2, 3, 7, 100, 5000, 99999, b - 1, b, b + 1, (b * 95) \div 100, (b * 105) \div 100 + 1} :
            P < 0 \/ Agree(beta, d, P)
\* evaluated in an action (worker thread: deep recursion needs the large stack)
Next == ~done /\ Assert(GridOK, "interval filter disagrees with the exact comparison") /\ done' = TRUE
Spec == Init /\ [][Next]_done
=============================================================================
