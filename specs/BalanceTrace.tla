---------------------------- MODULE BalanceTrace ----------------------------
(***************************************************************************)
(* Trace validation for C02 on the same events as SortedSetTrace: the      *)
(* measured height of the real tree after every single operation, and the  *)
(* number of comparator calls of every Get, against the exact bound        *)
(*    (2000/(1000+beta))^(height-1) <= P                                   *)
(* where P (history variable) is the largest Len since the tree was        *)
(* created, cleared or last empty.  P is tracked from the logged Len, so   *)
(* this check is independent of C01.  A clone inherits P from its original *)
(* (its shape is a copy of the original's).                                *)
(***************************************************************************)
EXTENDS SortedSet, TraceBase

VARIABLE trees   \* tree id -> [P, beta]

TInit == TLCSet(1, 0) /\ l = 1 /\ trees = <<>>

Bump(P, n) == IF n = 0 THEN 0 ELSE IF n > P THEN n ELSE P

TStep ==
  /\ l <= N
  /\ l' = l + 1
  /\ LET e == Trace[l]
         o == IF e.op = "clone" THEN e.t2 ELSE e.t
     IN  /\ CASE e.op = "new" ->
                   /\ trees' = (1 :> [P |-> e.len, beta |-> e.beta])
                   \* built by New from n distinct keys: minimum height
                   /\ e.height = (IF e.len = 0 THEN 0 - 1 ELSE FloorLog2(e.len))
               [] e.op \in {"add", "replace", "remove", "clear"} ->
                   trees' = [trees EXCEPT ![e.t].P = Bump(@, e.len)]
               [] e.op = "clone" ->
                   trees' = (e.t2 :> trees[e.t]) @@ trees
               [] OTHER -> FALSE
         /\ e.panic = ""
         /\ DepthOK(trees'[o].beta, e.height, trees'[o].P)
         /\ \A i \in DOMAIN e.gets : CmpsOK(trees'[o].beta, e.gets[i][5], trees'[o].P)
         \* the trees this call did not touch keep their bound (their P is unchanged)
         /\ \A i \in DOMAIN e.others :
              LET x == e.others[i]
              IN  x[1] \in DOMAIN trees' /\ DepthOK(trees'[x[1]].beta, x[2], trees'[x[1]].P)

TSkip ==
  /\ l <= N
  /\ ~ENABLED TStep
  /\ Reject(l)
  /\ l' = NextNew(l)
  /\ trees' = <<>>

TNext == TStep \/ TSkip
TSpec == TInit /\ [][TNext]_<<trees, l>>
=============================================================================
