SPECIFICATION Spec
CONSTANTS
  Clients = {1, 2}
  Prog <- P2
  Limit = 3
  Unlocked = {"len"}
INVARIANTS Linearizable Agrees MutualExclusion
CHECK_DEADLOCK FALSE
