--------------------------- MODULE DiffChunksTrace ---------------------------
(***************************************************************************)
(* Record validation for C13: for one (Left, Right, n) the chunks of the   *)
(* real mdiff.Diff after New, after AddContext(n) and after Unify, and     *)
(* Diff.Edits at each stage, against the stage conditions of DiffChunks.   *)
(***************************************************************************)
EXTENDS DiffChunks, TraceBase

TInit == TLCSet(1, 0) /\ l = 1

TStep ==
  /\ l <= N
  /\ l' = l + 1
  /\ LET e == Trace[l]
     IN  /\ e.panic = ""
         /\ AfterNew(e.lhs, e.rhs, e.cnew)
         /\ AfterContext(e.lhs, e.rhs, e.cnew, e.cctx, e.n)
         /\ AfterUnify(e.lhs, e.rhs, e.cnew, e.cuni, e.n)
         \* Edits holds the full script ...  (minimality needs a quadratic LCS table and is
         \* checked for inputs up to 40 000 cells; beyond that validity and canonical form)
         /\ (IF e.big = 1 THEN ScriptValid(e.enew, e.lhs, e.rhs) ELSE ScriptOK(e.enew, e.lhs, e.rhs))
         /\ e.ectx = e.enew /\ e.euni = e.enew        \* ... and is not disturbed
         \* another order of the same calls on a fresh Diff of the same inputs
         /\ PipeOK(e.lhs, e.rhs, e.enew, e.cnew, e.pipe, 1)

TSkip == l <= N /\ ~ENABLED TStep /\ Reject(l) /\ l' = l + 1
TNext == TStep \/ TSkip
TSpec == TInit /\ [][TNext]_<<l>>
=============================================================================
