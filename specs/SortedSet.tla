----------------------------- MODULE SortedSet -----------------------------
(***************************************************************************)
(* Abstract specification of stree.Tree (C01, C02): a sorted set with one  *)
(* stored representative per comparator-equivalence class.  A key is a     *)
(* pair <<c, g>>: class c (what the comparator looks at) and tag g (what   *)
(* distinguishes equivalent keys).  The state of one tree is               *)
(*    [m |-> function from the present classes to the stored tag,          *)
(*     P |-> largest Len since creation / Clear / last empty (for C02)]    *)
(* The operators below are pure; Scapegoat.tla runs them in lock-step with *)
(* the implementation-shaped model and SortedSetTrace.tla binds them to    *)
(* recorded calls.                                                         *)
(***************************************************************************)
EXTENDS Integers, Sequences, SequencesExt, FiniteSets, TLC, BigNat

ZeroKey == <<0, 0>>
EmptySet == [m |-> <<>>, P |-> 0]

SLen(s) == Cardinality(DOMAIN s.m)

WithP(m, P) ==
  LET n == Cardinality(DOMAIN m)
  IN  [m |-> m, P |-> IF n = 0 THEN 0 ELSE IF n > P THEN n ELSE P]


SAdd(s, k) ==
  IF k[1] \in DOMAIN s.m THEN [s |-> s, res |-> FALSE]
  ELSE [s |-> WithP((k[1] :> k[2]) @@ s.m, s.P), res |-> TRUE]

SReplace(s, k) ==
  IF k[1] \in DOMAIN s.m
    THEN [s |-> [s EXCEPT !.m = [s.m EXCEPT ![k[1]] = k[2]]], res |-> FALSE]
    ELSE [s |-> WithP((k[1] :> k[2]) @@ s.m, s.P), res |-> TRUE]

SRemove(s, k) ==
  IF k[1] \in DOMAIN s.m
    THEN [s |-> WithP(Restrict(s.m, DOMAIN s.m \ {k[1]}), s.P), res |-> TRUE]
    ELSE [s |-> s, res |-> FALSE]

SClear(s) == [s |-> EmptySet, res |-> TRUE]

\* New(keys...): any one of the equivalent keys given may be the representative.
ValidNew(keys, m) ==
  /\ DOMAIN m = {keys[i][1] : i \in DOMAIN keys}
  /\ \A c \in DOMAIN m : \E i \in DOMAIN keys : keys[i] = <<c, m[c]>>

(* Order: natural on classes, or reversed. *)
Before(rev, a, b) == IF rev THEN a > b ELSE a < b

\* The in-order listing: the unique sequence of the stored keys that is
\* strictly ascending under the comparator.  InorderDecl says it; Inorder computes
\* the same sequence by sorting (n log n instead of n^3 in TLC: histories with
\* thousands of keys); their equality is an invariant of the Scapegoat model
\* (InorderAgrees) on every reachable abstract set.
RECURSIVE SortedFrom(_, _, _)
SortedFrom(m, rev, D) ==
  IF D = {} THEN <<>>
  ELSE LET c == CHOOSE x \in D : \A y \in D : y = x \/ Before(rev, x, y)
       IN  <<<<c, m[c]>>>> \o SortedFrom(m, rev, D \ {c})
InorderDecl(s, rev) == SortedFrom(s.m, rev, DOMAIN s.m)

SortedOf(m, rev, D) ==
  LET q == SetToSortSeq(D, LAMBDA a, b : Before(rev, a, b))
  IN  [i \in 1..Len(q) |-> <<q[i], m[q[i]]>>]
Inorder(s, rev) == SortedOf(s.m, rev, DOMAIN s.m)

\* keys not less than class c, in order
InorderAfter(s, rev, c) ==
  SortedOf(s.m, rev, {x \in DOMAIN s.m : x = c \/ Before(rev, c, x)})
InorderAfterDecl(s, rev, c) ==
  SortedFrom(s.m, rev, {x \in DOMAIN s.m : x = c \/ Before(rev, c, x)})

MinKey(s, rev) == IF DOMAIN s.m = {} THEN ZeroKey ELSE Inorder(s, rev)[1]
MaxKey(s, rev) == IF DOMAIN s.m = {} THEN ZeroKey ELSE Inorder(s, rev)[SLen(s)]
GetKey(s, c) == IF c \in DOMAIN s.m THEN <<1, c, s.m[c]>> ELSE <<0, 0, 0>>

Prefix(q, stop) == IF stop = 0 \/ stop >= Len(q) THEN q ELSE SubSeq(q, 1, stop)

(***************************************************************************)
(* C02.  height = number of edges on the longest root-to-node path (-1 for *)
(* the empty tree).  "No key lies deeper than log_{2000/(1000+beta)} P + 1"*)
(* is, exactly,  (2000/(1000+beta))^(height-1) <= P.                       *)
(***************************************************************************)
DepthOK(beta, height, P) ==
  (beta < 1000 /\ height >= 1) => PowLE(beta, height - 1, P)

\* a lookup needs at most (that bound) + 1 comparisons
CmpsOK(beta, cmps, P) ==
  (beta < 1000 /\ cmps >= 3) => PowLE(beta, cmps - 2, P)

RECURSIVE FloorLog2(_)
FloorLog2(n) == IF n <= 1 THEN 0 ELSE 1 + FloorLog2(n \div 2)
=============================================================================
