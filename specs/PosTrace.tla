------------------------------ MODULE PosTrace ------------------------------
(***************************************************************************)
(* Specification and trace validation for C06: with an update function     *)
(* installed, the most recent position reported for every element that     *)
(* entered through Add or Set and is still held equals the offset at which *)
(* it sits (Each order = Peek offsets); Add returns the new element's      *)
(* offset; Remove(p) at an element's reported position removes exactly     *)
(* that element.  Independent of heap order (C05): it follows the          *)
(* callback log only.                                                      *)
(***************************************************************************)
EXTENDS TraceBase, FiniteSets

VARIABLES pos, trk     \* id -> last reported position; tracked live ids

\* fold over the callback log by halving (a recursion as deep as the log is quadratic in TLC)
RECURSIVE ApplySpan(_, _, _, _)
ApplySpan(f, rep, lo, hi) ==
  IF lo > hi THEN f
  ELSE IF lo = hi THEN (rep[lo][1] :> rep[lo][2]) @@ f
  ELSE LET mid == (lo + hi) \div 2 IN ApplySpan(ApplySpan(f, rep, lo, mid), rep, mid + 1, hi)
Apply(f, rep, i) == ApplySpan(f, rep, i, Len(rep))

TInit == TLCSet(1, 0) /\ l = 1 /\ pos = <<>> /\ trk = {}

\* Queues beyond 2^16 elements: the driver applies the callback log itself
\* (lastpos[id] = most recent report, -1 once the element has left) and logs that
\* table with the array; every element entered through Set, so all are tracked.
BigStep(e) ==
  /\ e.panic = ""
  /\ \A i \in DOMAIN e.arr : e.lastpos[e.arr[i][2]] = i - 1
  /\ (e.op \in {"pop", "remove"} => e.rok /\ e.lastpos[e.ret[2]] = 0 - 1)
  /\ (e.target # 0 => e.ret[2] = e.target)
  /\ e.len = Len(e.arr)
  /\ UNCHANGED <<pos, trk>>

SmallStep ==
  /\ LET e == Trace[l]
         p0 == IF e.op = "new" THEN <<>> ELSE pos
         p1 == Apply(p0, e.moves, 1)
     IN  /\ e.panic = ""
         /\ pos' = p1
         /\ CASE e.op = "new" -> trk' = {}
               [] e.op = "add" -> trk' = trk \cup {e.e[2]} /\ e.ri >= 0 /\ e.ri < Len(e.arr) /\ e.arr[e.ri + 1] = e.e
               [] e.op \in {"pop", "remove"} ->
                    /\ trk' = (IF e.rok THEN trk \ {e.ret[2]} ELSE trk)
                    /\ (e.target # 0 => e.rok /\ e.ret[2] = e.target)
               [] e.op = "set" -> trk' = {e.vs[i][2] : i \in DOMAIN e.vs}
               [] e.op = "clear" -> trk' = {}
               [] e.op \in {"reorder", "sort"} -> trk' = trk
               [] OTHER -> FALSE
         /\ (e.op # "sort" =>
               \A i \in DOMAIN e.arr :
                 e.arr[i][2] \in trk' => (e.arr[i][2] \in DOMAIN p1 /\ p1[e.arr[i][2]] = i - 1))

TStep ==
  /\ l <= N
  /\ l' = l + 1
  /\ (IF Trace[l].kind = "big" THEN BigStep(Trace[l]) ELSE SmallStep)

TSkip ==
  /\ l <= N
  /\ ~ENABLED TStep
  /\ Reject(l)
  /\ l' = NextNew(l)
  /\ pos' = <<>> /\ trk' = {}

TNext == TStep \/ TSkip
TSpec == TInit /\ [][TNext]_<<pos, trk, l>>
=============================================================================
