------------------------------ MODULE ShellLex ------------------------------
(***************************************************************************)
(* Specification of shell.Split / Scanner (C16) and of what shell.Quote    *)
(* must achieve (C15).  Strings are sequences of byte codes.               *)
(*                                                                         *)
(* Lex: a REFERENCE tokenizer written from the POSIX quoting rules by      *)
(* quoting MODE (unquoted / single / double, pending backslash), not from  *)
(* the implementation's table:                                             *)
(*   unquoted: blank or newline ends a word; backslash-newline vanishes;   *)
(*             backslash x is x; ' and " open quotes (and start a word,    *)
(*             so '' is an empty word)                                     *)
(*   single  : everything literal up to the next '                         *)
(*   double  : backslash escapes only " \ and newline (of the six classes  *)
(*             the tokenizer distinguishes); otherwise both bytes stay     *)
(* Input ending inside a quote or after a backslash yields the partial     *)
(* word (possibly empty) and complete = FALSE.                             *)
(*                                                                         *)
(* Table: the 7-state x 6-class transition table of shell.go, as data.     *)
(***************************************************************************)
EXTENDS Integers, Sequences, FiniteSets, TLC

SP == 32  TAB == 9  NL == 10  BS == 92  SQ == 39  DQ == 34

IsBlank(b) == b = SP \/ b = TAB

(* ---- reference, by modes ----------------------------------------------- *)
\* configuration: [mode "U"|"S"|"D", esc, inword, cur, toks, ends]
\* ends[k] = number of input bytes consumed when token k was delivered
Ref0 == [mode |-> "U", esc |-> FALSE, inword |-> FALSE, cur |-> <<>>, toks |-> <<>>, ends |-> <<>>]

RefStep(c, b, pos) ==      \* pos = index of b (1-based) = bytes consumed after this step
  CASE c.mode = "U" /\ ~c.esc ->
         IF IsBlank(b) \/ b = NL
           THEN IF c.inword THEN [c EXCEPT !.toks = Append(@, c.cur), !.ends = Append(@, pos), !.cur = <<>>, !.inword = FALSE]
                ELSE c
         ELSE IF b = BS THEN [c EXCEPT !.esc = TRUE]
         ELSE IF b = SQ THEN [c EXCEPT !.mode = "S", !.inword = TRUE]
         ELSE IF b = DQ THEN [c EXCEPT !.mode = "D", !.inword = TRUE]
         ELSE [c EXCEPT !.cur = Append(@, b), !.inword = TRUE]
    [] c.mode = "U" /\ c.esc ->
         IF b = NL THEN [c EXCEPT !.esc = FALSE]                       \* line continuation
         ELSE [c EXCEPT !.esc = FALSE, !.cur = Append(@, b), !.inword = TRUE]
    [] c.mode = "S" ->
         IF b = SQ THEN [c EXCEPT !.mode = "U"] ELSE [c EXCEPT !.cur = Append(@, b)]
    [] c.mode = "D" /\ ~c.esc ->
         IF b = DQ THEN [c EXCEPT !.mode = "U"]
         ELSE IF b = BS THEN [c EXCEPT !.esc = TRUE]
         ELSE [c EXCEPT !.cur = Append(@, b)]
    [] c.mode = "D" /\ c.esc ->
         IF b = NL THEN [c EXCEPT !.esc = FALSE]
         ELSE IF b = BS \/ b = DQ THEN [c EXCEPT !.esc = FALSE, !.cur = Append(@, b)]
         ELSE [c EXCEPT !.esc = FALSE, !.cur = Append(Append(@, BS), b)]

RECURSIVE RefSpan(_, _, _, _)      \* fold by halving, see EvFSpan
RefSpan(c, s, lo, hi) ==
  IF lo > hi THEN c
  ELSE IF lo = hi THEN RefStep(c, s[lo], lo)
  ELSE LET mid == (lo + hi) \div 2 IN RefSpan(RefSpan(c, s, lo, mid), s, mid + 1, hi)
RefRun(c, s, i) == RefSpan(c, s, i, Len(s))

RefComplete(c) == c.mode = "U" /\ ~c.esc
RefPending(c) == c.inword \/ ~RefComplete(c)       \* a final (possibly partial) token exists
\* result for input s: tokens, completeness, and the consumed offset after each token
Lex(s) ==
  LET c == RefRun(Ref0, s, 1)
  IN  [toks |-> IF RefPending(c) THEN Append(c.toks, c.cur) ELSE c.toks,
       complete |-> RefComplete(c),
       ends |-> IF RefPending(c) THEN Append(c.ends, Len(s)) ELSE c.ends]

(* ---- the implementation's table (shell.go `update`) --------------------- *)
ClassOf(b) == IF IsBlank(b) THEN "break" ELSE IF b = NL THEN "newline" ELSE IF b = BS THEN "quote"
              ELSE IF b = SQ THEN "single" ELSE IF b = DQ THEN "double" ELSE "other"

Row(br, nl, qu, sg, db, ot) == [break |-> br, newline |-> nl, quote |-> qu, single |-> sg, double |-> db, other |-> ot]
Table ==
  [stBreak   |-> Row(<<"stBreak", "drop">>, <<"stBreak", "drop">>, <<"stBreakQ", "drop">>, <<"stSingle", "drop">>, <<"stDouble", "drop">>, <<"stWord", "push">>),
   stBreakQ  |-> Row(<<"stWord", "push">>, <<"stBreak", "drop">>, <<"stWord", "push">>, <<"stWord", "push">>, <<"stWord", "push">>, <<"stWord", "push">>),
   stWord    |-> Row(<<"stBreak", "emit">>, <<"stBreak", "emit">>, <<"stWordQ", "drop">>, <<"stSingle", "drop">>, <<"stDouble", "drop">>, <<"stWord", "push">>),
   stWordQ   |-> Row(<<"stWord", "push">>, <<"stWord", "drop">>, <<"stWord", "push">>, <<"stWord", "push">>, <<"stWord", "push">>, <<"stWord", "push">>),
   stSingle  |-> Row(<<"stSingle", "push">>, <<"stSingle", "push">>, <<"stSingle", "push">>, <<"stWord", "drop">>, <<"stSingle", "push">>, <<"stSingle", "push">>),
   stDouble  |-> Row(<<"stDouble", "push">>, <<"stDouble", "push">>, <<"stDoubleQ", "drop">>, <<"stDouble", "push">>, <<"stWord", "drop">>, <<"stDouble", "push">>),
   stDoubleQ |-> Row(<<"stDouble", "xpush">>, <<"stDouble", "drop">>, <<"stDouble", "push">>, <<"stDouble", "xpush">>, <<"stDouble", "push">>, <<"stDouble", "xpush">>)]

Tab0 == [st |-> "stBreak", cur |-> <<>>, toks |-> <<>>, ends |-> <<>>]
TabStep(c, b, pos) ==
  LET e == Table[c.st][ClassOf(b)]
      act == e[2]
      c1 == [c EXCEPT !.st = e[1]]
  IN  CASE act = "push" -> [c1 EXCEPT !.cur = Append(@, b)]
        [] act = "xpush" -> [c1 EXCEPT !.cur = Append(Append(@, BS), b)]
        [] act = "emit" -> [c1 EXCEPT !.toks = Append(@, c.cur), !.ends = Append(@, pos), !.cur = <<>>]
        [] act = "drop" -> c1
RECURSIVE TabSpan(_, _, _, _)
TabSpan(c, s, lo, hi) ==
  IF lo > hi THEN c
  ELSE IF lo = hi THEN TabStep(c, s[lo], lo)
  ELSE LET mid == (lo + hi) \div 2 IN TabSpan(TabSpan(c, s, lo, mid), s, mid + 1, hi)
TabRun(c, s, i) == TabSpan(c, s, i, Len(s))
TabLex(s) ==
  LET c == TabRun(Tab0, s, 1)
      pending == c.st # "stBreak"
  IN  [toks |-> IF pending THEN Append(c.toks, c.cur) ELSE c.toks,
       complete |-> c.st \in {"stBreak", "stWord"},
       ends |-> IF pending THEN Append(c.ends, Len(s)) ELSE c.ends]

(* ---- POSIX word evaluation, for Quote (C15) ----------------------------- *)
\* bytes with special meaning to a POSIX shell when unquoted (XCU 2.2): must / may need quoting
MustQ == {124, 38, 59, 60, 62, 40, 41, 36, 96, 92, 34, 39, 32, 9, 10}      \* | & ; < > ( ) $ ` \ " ' space tab newline
MayQ  == {42, 63, 91, 35, 126, 61, 37}                                    \* * ? [ # ~ = %
Special == MustQ \cup MayQ

\* Eval: [words, exposed] — words after quote removal (split at unquoted blanks/newlines);
\* exposed = special bytes met in unquoted position, or $ ` met inside double quotes
Ev0 == [mode |-> "U", esc |-> FALSE, inword |-> FALSE, cur |-> <<>>, words |-> <<>>, exposed |-> {}]
EvStep(c, b) ==
  CASE c.mode = "U" /\ ~c.esc ->
         IF IsBlank(b) \/ b = NL
           THEN IF c.inword THEN [c EXCEPT !.words = Append(@, c.cur), !.cur = <<>>, !.inword = FALSE] ELSE c
         ELSE IF b = BS THEN [c EXCEPT !.esc = TRUE]
         ELSE IF b = SQ THEN [c EXCEPT !.mode = "S", !.inword = TRUE]
         ELSE IF b = DQ THEN [c EXCEPT !.mode = "D", !.inword = TRUE]
         ELSE [c EXCEPT !.cur = Append(@, b), !.inword = TRUE,
                        !.exposed = IF b \in Special THEN @ \cup {b} ELSE @]
    [] c.mode = "U" /\ c.esc ->
         IF b = NL THEN [c EXCEPT !.esc = FALSE]
         ELSE [c EXCEPT !.esc = FALSE, !.cur = Append(@, b), !.inword = TRUE]
    [] c.mode = "S" ->
         IF b = SQ THEN [c EXCEPT !.mode = "U"] ELSE [c EXCEPT !.cur = Append(@, b)]
    [] c.mode = "D" /\ ~c.esc ->
         IF b = DQ THEN [c EXCEPT !.mode = "U"]
         ELSE IF b = BS THEN [c EXCEPT !.esc = TRUE]
         ELSE [c EXCEPT !.cur = Append(@, b), !.exposed = IF b \in {36, 96} THEN @ \cup {b} ELSE @]
    [] c.mode = "D" /\ c.esc ->
         IF b = NL THEN [c EXCEPT !.esc = FALSE]
         ELSE IF b \in {BS, DQ, 36, 96} THEN [c EXCEPT !.esc = FALSE, !.cur = Append(@, b)]
         ELSE [c EXCEPT !.esc = FALSE, !.cur = Append(Append(@, BS), b)]
RECURSIVE EvSpan(_, _, _, _)
EvSpan(c, s, lo, hi) ==
  IF lo > hi THEN c
  ELSE IF lo = hi THEN EvStep(c, s[lo])
  ELSE LET mid == (lo + hi) \div 2 IN EvSpan(EvSpan(c, s, lo, mid), s, mid + 1, hi)
EvRun(c, s, i) == EvSpan(c, s, i, Len(s))
Eval(s) ==
  LET c == EvRun(Ev0, s, 1)
  IN  [words |-> IF c.inword THEN Append(c.words, c.cur) ELSE c.words,
       exposed |-> c.exposed,
       closed |-> c.mode = "U" /\ ~c.esc]

(* EvalF: the same evaluation in time linear in the text for TLC (Eval appends byte by   *)
(* byte, which copies the word every time).  A word under construction is a sequence of *)
(* index ranges <<from, to>> into the text; literal bytes extend the last range when     *)
(* adjacent.  QuoteMC checks EvalF = Eval on every text of its space.                    *)
Lit(c, i) ==          \* the byte at index i joins the current word
  LET n == Len(c.segs)
  IN  IF n > 0 /\ c.segs[n][2] = i - 1 THEN [c EXCEPT !.segs[n] = <<c.segs[n][1], i>>, !.inword = TRUE]
      ELSE [c EXCEPT !.segs = Append(@, <<i, i>>), !.inword = TRUE]
Lit2(c, i) ==         \* the bytes at i-1 and i (a backslash that stays, and its successor)
  Lit(Lit(c, i - 1), i)
EvF0 == [mode |-> "U", esc |-> FALSE, inword |-> FALSE, segs |-> <<>>, words |-> <<>>, exposed |-> {}]
EvFStep(c, b, i) ==
  CASE c.mode = "U" /\ ~c.esc ->
         IF IsBlank(b) \/ b = NL
           THEN IF c.inword THEN [c EXCEPT !.words = Append(@, c.segs), !.segs = <<>>, !.inword = FALSE] ELSE c
         ELSE IF b = BS THEN [c EXCEPT !.esc = TRUE]
         ELSE IF b = SQ THEN [c EXCEPT !.mode = "S", !.inword = TRUE]
         ELSE IF b = DQ THEN [c EXCEPT !.mode = "D", !.inword = TRUE]
         ELSE [Lit(c, i) EXCEPT !.exposed = IF b \in Special THEN @ \cup {b} ELSE @]
    [] c.mode = "U" /\ c.esc ->
         IF b = NL THEN [c EXCEPT !.esc = FALSE] ELSE [Lit(c, i) EXCEPT !.esc = FALSE]
    [] c.mode = "S" ->
         IF b = SQ THEN [c EXCEPT !.mode = "U"] ELSE Lit(c, i)
    [] c.mode = "D" /\ ~c.esc ->
         IF b = DQ THEN [c EXCEPT !.mode = "U"]
         ELSE IF b = BS THEN [c EXCEPT !.esc = TRUE]
         ELSE [Lit(c, i) EXCEPT !.exposed = IF b \in {36, 96} THEN @ \cup {b} ELSE @]
    [] c.mode = "D" /\ c.esc ->
         IF b = NL THEN [c EXCEPT !.esc = FALSE]
         ELSE IF b \in {BS, DQ, 36, 96} THEN [Lit(c, i) EXCEPT !.esc = FALSE]
         ELSE [Lit2(c, i) EXCEPT !.esc = FALSE]
\* Folds over a text are written by halving (recursion depth log2 n): in TLC a linear recursion
\* as deep as the text makes every garbage collection scan a huge stack - quadratic time.
RECURSIVE EvFSpan(_, _, _, _)
EvFSpan(c, s, lo, hi) ==
  IF lo > hi THEN c
  ELSE IF lo = hi THEN EvFStep(c, s[lo], lo)
  ELSE LET mid == (lo + hi) \div 2 IN EvFSpan(EvFSpan(c, s, lo, mid), s, mid + 1, hi)
EvFRun(c, s, i) == EvFSpan(c, s, i, Len(s))
RECURSIVE Glue(_, _, _)
Glue(s, segs, k) == IF k > Len(segs) THEN <<>> ELSE SubSeq(s, segs[k][1], segs[k][2]) \o Glue(s, segs, k + 1)
EvalF(s) ==
  LET c == EvFRun(EvF0, s, 1)
      ws == IF c.inword THEN Append(c.words, c.segs) ELSE c.words
  IN  [words |-> [k \in DOMAIN ws |-> Glue(s, ws[k], 1)], exposed |-> c.exposed, closed |-> c.mode = "U" /\ ~c.esc]

\* Quote(s) = q is correct iff a shell evaluating q as one command word obtains
\* exactly s, with no special byte left unquoted
QuoteOK(s, q) ==
  LET e == Eval(q)
  IN  e.closed /\ e.words = <<s>> /\ e.exposed = {}

(* ---- transcription of shell.go quote() ---------------------------------- *)
AllQuote == {124, 38, 59, 60, 62, 40, 41, 36, 96, 92, 34, 9, 10} \cup MayQ \cup {32, 9, 10}
RECURSIVE QGo(_, _, _, _, _)
QGo(s, i, inq, hasOther, out) ==
  IF i > Len(s) THEN (IF inq THEN Append(out, SQ) ELSE out)
  ELSE LET ch == s[i]
       IN  IF ch = SQ
             THEN QGo(s, i + 1, FALSE, hasOther, (IF inq THEN Append(out, SQ) ELSE out) \o <<BS, SQ>>)
             ELSE IF ~inq /\ hasOther THEN QGo(s, i + 1, TRUE, hasOther, out \o <<SQ, ch>>)
             ELSE QGo(s, i + 1, inq, hasOther, Append(out, ch))
AlgQuote(s) ==
  IF s = <<>> THEN <<SQ, SQ>>
  ELSE LET hasQ == \E i \in DOMAIN s : s[i] = SQ
           hasOther == \E i \in DOMAIN s : s[i] # SQ /\ s[i] \in AllQuote
       IN  IF ~hasQ /\ ~hasOther THEN s ELSE QGo(s, 1, FALSE, hasOther, <<>>)
RECURSIVE AlgJoinGo(_, _)
AlgJoinGo(ss, i) == IF i > Len(ss) THEN <<>> ELSE <<SP>> \o AlgQuote(ss[i]) \o AlgJoinGo(ss, i + 1)
AlgJoin(ss) == IF ss = <<>> THEN <<>> ELSE AlgQuote(ss[1]) \o AlgJoinGo(ss, 2)

RECURSIVE StrsUpTo(_, _)
StrsUpTo(A, n) == IF n = 0 THEN {<<>>} ELSE StrsUpTo(A, n - 1) \cup {Append(s, x) : s \in {t \in StrsUpTo(A, n - 1) : Len(t) = n - 1}, x \in A}
=============================================================================
