SPECIFICATION CSpec
CONSTANTS
  MaxNodes = 8
  MaxMoves = 3
VIEW CView
INVARIANTS AlgEqualsAbs CursorSane
ACTION_CONSTRAINT Emit
CHECK_DEADLOCK FALSE
