SPECIFICATION TSpec
INVARIANT Mark
POSTCONDITION HighWater
CHECK_DEADLOCK FALSE
