----------------------------- MODULE DiffChunks -----------------------------
(***************************************************************************)
(* Specification of mdiff chunks (C13).  A chunk is                        *)
(*   [ls, le, rs, re, edits]: 1-based half-open line ranges [ls,le) of     *)
(*   Left and [rs,re) of Right and a script of edits <<op, X, Y>>.         *)
(* ChunkOK: executing the chunk's edits consumes exactly Left[ls..le) and  *)
(* produces exactly Right[rs..re).  The stage conditions below are the     *)
(* property; ModelNew transcribes mdiff.New for model checking.            *)
(***************************************************************************)
EXTENDS EditScript

Lines(q, lo, hi) == SubSeq(q, lo, hi - 1)          \* lines lo .. hi-1

RangeOK(L, R, c) ==
  /\ 1 <= c.ls /\ c.ls <= c.le /\ c.le <= Len(L) + 1
  /\ 1 <= c.rs /\ c.rs <= c.re /\ c.re <= Len(R) + 1
ChunkOK(L, R, c) ==
  /\ RangeOK(L, R, c)
  /\ c.edits # <<>>
  /\ Valid(c.edits, Lines(L, c.ls, c.le), Lines(R, c.rs, c.re))

Ascending(cs, strict) ==
  \A i \in 1..(Len(cs) - 1) :
    /\ (IF strict THEN cs[i].le < cs[i + 1].ls ELSE cs[i].le <= cs[i + 1].ls)
    /\ (IF strict THEN cs[i].re < cs[i + 1].rs ELSE cs[i].re <= cs[i + 1].rs)
    /\ cs[i + 1].ls - cs[i].le = cs[i + 1].rs - cs[i].re      \* the gap is common to both sides

\* replacing each chunk's left range by its output turns Left into Right
RECURSIVE ApplyFrom(_, _, _, _)
ApplyFrom(L, cs, k, lpos) ==       \* lpos: next unconsumed left line
  IF k > Len(cs) THEN Lines(L, lpos, Len(L) + 1)
  ELSE Lines(L, lpos, cs[k].ls) \o Produced(cs[k].edits, 1) \o ApplyFrom(L, cs, k + 1, cs[k].le)
Applies(L, R, cs) == ApplyFrom(L, cs, 1, 1) = R


\* stage conditions
AfterNew(L, R, cs) ==
  /\ \A i \in DOMAIN cs : ChunkOK(L, R, cs[i]) /\ \A j \in DOMAIN cs[i].edits : cs[i].edits[j][1] # "="
  /\ Ascending(cs, FALSE)
  /\ Applies(L, R, cs)
  /\ (cs = <<>>) = (L = R)

AfterContext(L, R, new, cs, n) ==
  /\ Len(cs) = Len(new)
  /\ \A i \in DOMAIN cs :
       /\ ChunkOK(L, R, cs[i])
       /\ new[i].ls - cs[i].ls \in 0..n /\ cs[i].le - new[i].le \in 0..n     \* at most n lines each side
       /\ new[i].ls - cs[i].ls = new[i].rs - cs[i].rs
       /\ cs[i].le - new[i].le = cs[i].re - new[i].re

Inside(c, u) == u.ls <= c.ls /\ c.le <= u.le /\ u.rs <= c.rs /\ c.re <= u.re
AfterUnify(L, R, new, cs, n) ==
  /\ \A i \in DOMAIN cs : ChunkOK(L, R, cs[i])
  /\ Ascending(cs, TRUE)               \* disjoint and not adjacent
  /\ Applies(L, R, cs)
  /\ \A i \in DOMAIN new : \E j \in DOMAIN cs : Inside(new[i], cs[j])
  /\ \A j \in DOMAIN cs :
       LET mine == {i \in DOMAIN new : Inside(new[i], cs[j])}
       IN  /\ mine # {}
           /\ \A i \in mine : (\A k \in mine : new[i].ls <= new[k].ls) => new[i].ls - cs[j].ls \in 0..n
           /\ \A i \in mine : (\A k \in mine : new[k].le <= new[i].le) => cs[j].le - new[i].le \in 0..n

(* ---- other call orders --------------------------------------------------- *)
\* One AddContext(n) from any earlier stage `prev` is AfterContext(prev).  Unify from a
\* stage `prev` (what New, an earlier Unify, or one AddContext after them left behind):
\* valid, disjoint, not adjacent, applicable chunks that cover the previous ones and
\* reach exactly as far as their outermost members (Unify adds and drops no line).
MinOf(S) == CHOOSE x \in S : \A y \in S : x <= y
MaxOf(S) == CHOOSE x \in S : \A y \in S : y <= x
StepUnify(L, R, prev, cs) ==
  /\ \A i \in DOMAIN cs : ChunkOK(L, R, cs[i])
  /\ Ascending(cs, TRUE)
  /\ Applies(L, R, cs)
  /\ (prev = <<>>) = (cs = <<>>)
  /\ \A i \in DOMAIN prev : \E j \in DOMAIN cs : Inside(prev[i], cs[j])
  /\ \A j \in DOMAIN cs :
       LET mine == {i \in DOMAIN prev : Inside(prev[i], cs[j])}
       IN  /\ mine # {}
           /\ cs[j].ls = MinOf({prev[i].ls : i \in mine}) /\ cs[j].le = MaxOf({prev[i].le : i \in mine})
           /\ cs[j].rs = MinOf({prev[i].rs : i \in mine}) /\ cs[j].re = MaxOf({prev[i].re : i \in mine})
RECURSIVE PipeOK(_, _, _, _, _, _)
PipeOK(L, R, edits, prev, pipe, k) ==
  IF k > Len(pipe) THEN TRUE
  ELSE LET st == pipe[k]
       IN  /\ st.e = edits                     \* Edits is never disturbed
           /\ (IF st.k = 0 THEN AfterContext(L, R, prev, st.cs, st.n) ELSE StepUnify(L, R, prev, st.cs))
           /\ PipeOK(L, R, edits, st.cs, pipe, k + 1)

(* ---- transcription of mdiff.New ---------------------------------------- *)
RECURSIVE NewGo(_, _, _, _, _, _)
NewGo(es, k, lcur, rcur, out, cur) ==     \* cur: the chunk being built
  IF k > Len(es)
    THEN IF cur.le = cur.ls /\ cur.re = cur.rs THEN out ELSE Append(out, cur)
  ELSE LET e == es[k]
           fresh == lcur > cur.le \/ rcur > cur.re
           out1 == IF fresh /\ (cur.le # cur.ls \/ cur.re # cur.rs) THEN Append(out, cur) ELSE out
           c0 == IF fresh THEN [ls |-> lcur, le |-> lcur, rs |-> rcur, re |-> rcur, edits |-> <<>>] ELSE cur
           nx == Len(e[2]) ny == Len(e[3])
       IN  CASE e[1] = "=" -> NewGo(es, k + 1, lcur + nx, rcur + nx, out1, c0)
             [] e[1] = "-" -> NewGo(es, k + 1, lcur + nx, rcur, out1, [c0 EXCEPT !.le = @ + nx, !.edits = Append(@, e)])
             [] e[1] = "+" -> NewGo(es, k + 1, lcur, rcur + ny, out1, [c0 EXCEPT !.re = @ + ny, !.edits = Append(@, e)])
             [] e[1] = "!" -> NewGo(es, k + 1, lcur + nx, rcur + ny, out1,
                                    [c0 EXCEPT !.le = @ + nx, !.re = @ + ny, !.edits = Append(@, e)])
ModelNew(es) == NewGo(es, 1, 1, 1, <<>>, [ls |-> 1, le |-> 1, rs |-> 1, re |-> 1, edits |-> <<>>])
=============================================================================
