------------------------------ MODULE MapSetMC ------------------------------
(***************************************************************************)
(* Exhaustive exploration of MapSet over a small universe and every        *)
(* combination of nil / empty / non-empty operands; algebraic laws of the  *)
(* predicates as invariants; one operation path per transition.            *)
(***************************************************************************)
EXTENDS MapSet, Json
CONSTANT U
VARIABLES st, path
vars == <<st, path>>
Op(name, x, y, items) == [op |-> name, x |-> x, y |-> y, items |-> items]
Init == st = Sets0 /\ path = <<Op("new", 0, 0, <<>>)>>
Do(s2, o) == st' = s2 /\ path' = Append(path, o)
Lists == {<<>>} \cup {<<a>> : a \in U} \cup {<<a, b>> : a \in U, b \in U}
Next ==
  \/ \E x \in 1..2, it \in Lists : Do(MAdd(st, x, it), Op("add", x, 0, it))
  \/ \E x \in 1..2, it \in Lists : Do(MRemove(st, x, it), Op("remove", x, 0, it))
  \/ \E x \in 1..2, it \in {<<>>} \cup {<<a>> : a \in U} : Do(MNew(st, x, it), Op("mk", x, 0, it))
  \/ \E x \in Names, y \in Names : Do(MAddAll(st, x, y), Op("addall", x, y, <<>>))
  \/ \E x \in Names, y \in Names : Do(MRemoveAll(st, x, y), Op("removeall", x, y, <<>>))
  \/ \E x \in Names : Do(MClear(st, x), Op("clear", x, 0, <<>>))
  \/ \E x \in 1..2 : Do(MClone(st, x, 3), Op("clone", x, 3, <<>>))
  \/ \E xs \in {<<>>, <<1>>, <<1, 2>>, <<2, 1, 3>>} : Do(MIntersect(st, xs, 3), Op("intersect", 0, 3, xs))
  \/ \E x \in Names, r \in U \cup {0} : PopOK(st, x, r, st') /\ path' = Append(path, Op("pop", x, 0, <<>>))
Spec == Init /\ [][Next]_vars

Laws ==
  \A a \in Names, b \in Names :
    /\ Equals(st[a], st[b]) = (IsSubset(st[a], st[b]) /\ IsSubset(st[b], st[a]))
    /\ Intersects(st[a], st[b]) = Intersects(st[b], st[a])
    /\ (st[a].m = {} => IsSubset(st[a], st[b]) /\ ~Intersects(st[a], st[b]))
NilIsEmpty == \A x \in Names : st[x].nil => st[x].m = {}
View == st
Emit == PrintT(ToJson(path'))
=============================================================================
