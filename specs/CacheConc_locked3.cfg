SPECIFICATION Spec
CONSTANTS
  Clients = {1, 2, 3}
  Prog <- P3
  Limit = 3
  Unlocked = {}
INVARIANTS Linearizable Agrees MutualExclusion
CHECK_DEADLOCK FALSE
