--------------------------------- MODULE CVM ---------------------------------
(***************************************************************************)
(* Specification of distinct.Counter (C19), the CVM distinct-elements      *)
(* estimator.  State of a counter:                                         *)
(*   buf  : set of buffered values        k : number of halving passes     *)
(*   cap  : buffer size                   seen : values added since Reset  *)
(* Add(v): a coin with P(keep) = 2^-k.  fail -> buf \ {v}.  keep ->        *)
(* buf \cup {v}; if that fills the buffer (|buf| >= cap) halving passes    *)
(* follow: in a pass every element independently survives with 1/2 and k   *)
(* grows by one; passes repeat while the buffer is still full.  The        *)
(* as-is switch "F8" models the code as it was: exactly one pass.          *)
(* Count = |buf| * 2^k.  The coin outcomes are the nondeterminism: TLC     *)
(* explores all of them.                                                   *)
(***************************************************************************)
EXTENDS Integers, Sequences, FiniteSets, TLC

CONSTANT Known

New(cap) == [buf |-> {}, k |-> 0, cap |-> cap, seen |-> {}]
Pow2(k) == 2 ^ k
Count(s) == Cardinality(s.buf) * Pow2(s.k)
MaxPasses == 4      \* bound on consecutive all-survive passes explored / accepted per Add

\* the set of states Add(v) may lead to
AddFail(s, v) == [s EXCEPT !.buf = @ \ {v}, !.seen = @ \cup {v}]
AddKeepNoHalve(s, v) == [s EXCEPT !.buf = @ \cup {v}, !.seen = @ \cup {v}]
Full(s, b) == Cardinality(b) >= s.cap
\* outcomes of the halving passes on a full buffer b
HalveOutcomes(s, b) ==
  IF "F8" \in Known
    THEN {[buf |-> S, k |-> s.k + 1] : S \in SUBSET b}                     \* one pass, whatever is left
    ELSE {[buf |-> S, k |-> s.k + j] : S \in {T \in SUBSET b : ~Full(s, T)}, j \in 1..MaxPasses}
AddOutcomes(s, v) ==
  LET b1 == s.buf \cup {v}
      keep == IF Full(s, b1)
                THEN {[s EXCEPT !.buf = o.buf, !.k = o.k, !.seen = @ \cup {v}] : o \in HalveOutcomes(s, b1)}
                ELSE {AddKeepNoHalve(s, v)}
  IN  IF s.k = 0 THEN keep ELSE keep \cup {AddFail(s, v)}
KeepOutcomes(s, v) ==
  LET b1 == s.buf \cup {v}
  IN  IF Full(s, b1)
        THEN {[s EXCEPT !.buf = o.buf, !.k = o.k, !.seen = @ \cup {v}] : o \in HalveOutcomes(s, b1)}
        ELSE {AddKeepNoHalve(s, v)}
Reset(s) == New(s.cap)

(* ---- properties of a state ---------------------------------------------- *)
Bounded(s) == Cardinality(s.buf) <= s.cap
ExactRegime(s) == Cardinality(s.seen) < s.cap => s.k = 0 /\ s.buf = s.seen
BufFromSeen(s) == s.buf \subseteq s.seen

(* ---- unbiasedness: the one-step identities ------------------------------ *)
(* E[ [a in buf'] * 2^k' | state ] = [a in buf] * 2^k for every a # v, and    *)
(* = 1 for a = v, for the coin step; and the same identity for one halving  *)
(* pass (each of the 2^n subsets equally likely).  With them E[Count] =     *)
(* |seen| follows by induction on the stream (Count = sum over a of         *)
(* [a in buf]*2^k).  Checked here by enumeration for all small n, in        *)
(* integers scaled by 2^n.                                                  *)
In(a, S) == IF a \in S THEN 1 ELSE 0
HalveIdentity(n) ==
  LET b == 1..n
  IN  \A a \in b :
        \* sum over all subsets S of [a in S] * 2^(k+1), k = 0, times 1 (weights 2^-n scaled away)
        LET total == Cardinality({S \in SUBSET b : a \in S}) * 2
        IN  total = Pow2(n) * 1                     \* = 2^n * [a in b] * 2^0
CoinIdentity(k) ==
  \* keep with weight 1, fail with weight 2^k - 1 (of 2^k): for the added value v,
  \* E[[v in buf'] 2^k] = (1 * 2^k + (2^k - 1) * 0) / 2^k = 1, whether or not v was buffered
  (1 * Pow2(k) + (Pow2(k) - 1) * 0) = Pow2(k) * 1
ASSUME \A n \in 1..8 : HalveIdentity(n)
ASSUME \A k \in 0..10 : CoinIdentity(k)
=============================================================================
