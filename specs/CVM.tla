--------------------------------- MODULE CVM ---------------------------------
(***************************************************************************)
(* Specification of distinct.Counter (C19), the CVM distinct-elements      *)
(* estimator.  State of a counter:                                         *)
(*   buf  : set of buffered values        k : number of halving passes     *)
(*   cap  : buffer size                   seen : values added since Reset  *)
(* Add(v): a coin with P(keep) = 2^-k.  fail -> buf \ {v}.  keep ->        *)
(* buf \cup {v}; if that fills the buffer (|buf| >= cap) halving passes    *)
(* follow: in a pass every element independently survives with 1/2 and k   *)
(* grows by one; passes repeat while the buffer is still full.  The        *)
(* as-is switch "F8" models the code as it was: exactly one pass.          *)
(* Count = |buf| * 2^k.  The coin outcomes are the nondeterminism: TLC     *)
(* explores all of them.  The @type comments are for Apalache (CVMInd).    *)
(***************************************************************************)
EXTENDS Integers, Sequences, FiniteSets, TLC

CONSTANT
  \* @type: Set(Str);
  Known

\* @typeAlias: counter = { buf: Set(Int), k: Int, cap: Int, seen: Set(Int) };
\* @type: (Int) => $counter;
New(cap) == [buf |-> {}, k |-> 0, cap |-> cap, seen |-> {}]
Pow2(k) == 2 ^ k
\* @type: ($counter) => Int;
Count(s) == Cardinality(s.buf) * Pow2(s.k)
MaxPasses == 4      \* bound on consecutive all-survive passes explored / accepted per Add

\* the set of states Add(v) may lead to
\* @type: ($counter, Int) => $counter;
AddFail(s, v) == [s EXCEPT !.buf = @ \ {v}, !.seen = @ \cup {v}]
\* @type: ($counter, Int) => $counter;
AddKeepNoHalve(s, v) == [s EXCEPT !.buf = @ \cup {v}, !.seen = @ \cup {v}]
\* @type: ($counter, Set(Int)) => Bool;
Full(s, b) == Cardinality(b) >= s.cap
\* outcomes of the halving passes on a full buffer b
\* @type: ($counter, Set(Int)) => Set({ buf: Set(Int), k: Int });
HalveOutcomes(s, b) ==
  IF "F8" \in Known
    THEN {[buf |-> S, k |-> s.k + 1] : S \in SUBSET b}                     \* one pass, whatever is left
    ELSE {[buf |-> S, k |-> s.k + j] : S \in {T \in SUBSET b : ~Full(s, T)}, j \in 1..MaxPasses}
\* @type: ($counter, Int) => Set($counter);
AddOutcomes(s, v) ==
  LET b1 == s.buf \cup {v}
      keep == IF Full(s, b1)
                THEN {[s EXCEPT !.buf = o.buf, !.k = o.k, !.seen = @ \cup {v}] : o \in HalveOutcomes(s, b1)}
                ELSE {AddKeepNoHalve(s, v)}
  IN  IF s.k = 0 THEN keep ELSE keep \cup {AddFail(s, v)}
\* @type: ($counter, Int) => Set($counter);
KeepOutcomes(s, v) ==
  LET b1 == s.buf \cup {v}
  IN  IF Full(s, b1)
        THEN {[s EXCEPT !.buf = o.buf, !.k = o.k, !.seen = @ \cup {v}] : o \in HalveOutcomes(s, b1)}
        ELSE {AddKeepNoHalve(s, v)}
\* @type: ($counter) => $counter;
Reset(s) == New(s.cap)

(* ---- properties of a state ---------------------------------------------- *)
\* @type: ($counter) => Bool;
Bounded(s) == Cardinality(s.buf) <= s.cap
\* @type: ($counter) => Bool;
ExactRegime(s) == Cardinality(s.seen) < s.cap => s.k = 0 /\ s.buf = s.seen
\* @type: ($counter) => Bool;
BufFromSeen(s) == s.buf \subseteq s.seen

=============================================================================
