SPECIFICATION Spec
CONSTANT MaxUnits = 4
INVARIANTS ValidityOK EmitInput
CHECK_DEADLOCK FALSE
