------------------------------ MODULE SubseqMC ------------------------------
(***************************************************************************)
(* For every sequence in the space (one initial state each), natural and   *)
(* reversed comparison: the patience algorithm of lis.go returns an        *)
(* optimal strictly-increasing / non-decreasing subsequence.  Inputs are   *)
(* printed for the real code.                                              *)
(***************************************************************************)
EXTENDS Subseq, Json

CONSTANTS Sym, MaxLen, Sym2, MaxLen2
VARIABLE vs

Space == SeqsUpTo(Sym, MaxLen) \cup SeqsUpTo(Sym2, MaxLen2)
Init == vs \in Space
Next == UNCHANGED vs
Spec == Init /\ [][Next]_vs

PatienceOK ==
  \A strict \in BOOLEAN, rev \in BOOLEAN : SubseqOK(Patience(vs, strict, rev), vs, strict, rev)
EmitInput == PrintT(ToJson([vs |-> vs]))
=============================================================================
