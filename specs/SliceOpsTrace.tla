---------------------------- MODULE SliceOpsTrace ----------------------------
(***************************************************************************)
(* Record validation for C17: one record per call of a slice utility on    *)
(* the real code (contents, len, cap, aliasing offset, panic or not).      *)
(***************************************************************************)
EXTENDS SliceOps, TraceBase

TInit == TLCSet(1, 0) /\ l = 1
KeepSet(vs, flags) == {vs[i] : i \in {j \in DOMAIN vs : flags[j] = 1}}

TStep ==
  /\ l <= N
  /\ l' = l + 1
  /\ LET e == Trace[l]
     IN  /\ e.guard
         /\ CASE e.f = "partition" -> ~e.panicked /\ PartitionOK(e.vs, KeepSet(e.vs, e.keep), e.r, e.after)
              [] e.f = "rotate"    -> RotateOK(e.vs, e.k, e.panicked, e.after)
              [] e.f = "chunks"    -> ChunksOK(Len(e.vs), e.k, e.panicked, e.parts) /\ (~e.panicked => e.after = e.vs /\ e.concat = e.vs)
              [] e.f = "batches"   -> BatchesOK(Len(e.vs), e.k, e.panicked, e.parts) /\ (~e.panicked /\ e.k > 0 => e.concat = e.vs)
              [] e.f = "head"      -> ~e.panicked /\ HeadOK(e.vs, e.k, e.r)
              [] e.f = "tail"      -> ~e.panicked /\ TailOK(e.vs, e.k, e.r)
              [] e.f = "stripe"    -> ~e.panicked /\ StripeOK(e.vss, e.k, e.r.out)
              [] e.f = "at"        -> AtOK(e.vs, e.k, e.panicked, e.r.v)
              [] e.f = "ptrat"     -> PtrAtOK(e.vs, e.k, e.panicked, e.r)
              [] OTHER -> FALSE

TSkip == l <= N /\ ~ENABLED TStep /\ Reject(l) /\ l' = l + 1
TNext == TStep \/ TSkip
TSpec == TInit /\ [][TNext]_<<l>>
=============================================================================
