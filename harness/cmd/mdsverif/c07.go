package main

// C07: queue.Queue.  Events: op ∈ new|add|push|pop|poplast|clear; v = argument
// (for new: NewSize argument, -1 = zero value, -2 = New()); rv, rok = result;
// observations after the call: len, empty, front, slice, each (stopped after
// `stop` items, 0 = never), peeks = [[offset, value, ok]].

import (
	"fmt"
	"math/rand"

	"github.com/creachadair/mds/queue"
)

func init() { props["C07"] = &Prop{Run: runC07, Replay: replayC07} }

type c07state struct {
	q *queue.Queue[int]
}

func c07exec(c *Ctx, st *c07state, op Op, rng *rand.Rand) Ev {
	name := gets(op, "op")
	v := geti(op, "v")
	ev := Ev{"op": name, "v": v, "rv": 0, "rok": true, "len": 0, "empty": true, "front": 0,
		"slice": []int{}, "stop": 0, "each": []int{}, "peeks": [][3]int{}, "offs": []int{}, "head": -1, "rn": -1, "cap": -1, "full": 1}
	guard(ev, func() { c07do(c, st, op, rng, ev, name, v) })
	return ev
}

func c07do(c *Ctx, st *c07state, op Op, rng *rand.Rand, ev Ev, name string, v int) {
	switch name {
	case "new":
		switch {
		case v == -1:
			st.q = new(queue.Queue[int])
		case v == -2:
			st.q = queue.New[int]()
		default:
			st.q = queue.NewSize[int](v)
		}
	case "add":
		st.q.Add(v)
	case "push":
		st.q.Push(v)
	case "pop":
		rv, ok := st.q.Pop()
		ev["rv"], ev["rok"] = rv, ok
	case "poplast":
		rv, ok := st.q.PopLast()
		ev["rv"], ev["rok"] = rv, ok
	case "clear":
		st.q.Clear()
	default:
		die("C07: unknown op %q", name)
	}
	q := st.q
	n := q.Len()
	if has(op, "full") && geti(op, "full") == 2 || !has(op, "full") && !has(op, "offs") && rng != nil && rng.Intn(5) == 0 {
		// sparse observation: at most one Peek and nothing else before the next call (the queue
		// must not depend on being looked at to put itself in order)
		ev["full"] = 2
		offs := []int{}
		if has(op, "offs") {
			offs = getis(op, "offs")
		} else if rng.Intn(2) == 0 {
			offs = []int{rng.Intn(2*n+3) - n - 1}
		}
		ev["offs"] = ints(offs)
		peeks := make([][3]int, 0, len(offs))
		for _, k := range offs {
			pv, ok := q.Peek(k)
			peeks = append(peeks, [3]int{k, pv, b2i(ok)})
		}
		ev["peeks"] = peeks
		head, rn, size := queueState(q)
		ev["head"], ev["rn"], ev["cap"] = head, rn, size
		return
	}
	ev["len"] = n
	ev["empty"] = q.IsEmpty()
	ev["front"] = q.Front()
	full := 1
	if has(op, "full") {
		full = geti(op, "full")
	} else if rng != nil && n > 40 && rng.Intn(40) != 0 {
		full = 0 // large queue: log the whole contents only now and then
	}
	ev["full"] = full
	if full == 1 {
		sl := q.Slice()
		ev["slice"] = ints(append([]int(nil), sl...))
		// the caller owns the returned slice: overwriting it must not reach the queue
		// (everything observed below comes after this)
		for i := range sl {
			sl[i] = -777
		}
	}
	stop := 0
	if has(op, "stop") {
		stop = geti(op, "stop")
	} else if rng != nil && rng.Intn(3) == 0 {
		stop = 1 + rng.Intn(n+2)
	}
	var seen []int
	if full == 1 {
		q.Each(func(x int) bool {
			seen = append(seen, x)
			return stop == 0 || len(seen) < stop
		})
	}
	ev["stop"] = stop
	ev["each"] = ints(seen)
	var offs []int
	if has(op, "offs") {
		offs = getis(op, "offs")
	} else if rng == nil || n <= 6 || (n <= 40 && rng.Intn(4) == 0) {
		for k := -n - 2; k <= n+1; k++ {
			offs = append(offs, k)
		}
	} else {
		offs = []int{0, -1, n - 1, n, -n, -n - 1, rng.Intn(n), -1 - rng.Intn(n)}
	}
	ev["offs"] = ints(offs)
	peeks := make([][3]int, 0, len(offs))
	for _, k := range offs {
		pv, ok := q.Peek(k)
		peeks = append(peeks, [3]int{k, pv, b2i(ok)})
	}
	ev["peeks"] = peeks
	head, rn, size := queueState(q)
	ev["head"], ev["rn"], ev["cap"] = head, rn, size
	if size >= 0 {
		c.Counters[fmt.Sprintf("cfg:%d/%d/%d", size, head, rn)]++
	}
}

func replayC07(c *Ctx, h *Hist, ops []Op) {
	st := &c07state{}
	for i, op := range ops {
		if i == 0 && gets(op, "op") != "new" {
			die("C07: history must start with new")
		}
		h.Emit(c07exec(c, st, op, nil))
	}
}

func runC07(c *Ctx) {
	for _, p := range c.Paths {
		replayC07(c, c.NewHist("tlc-path"), p)
	}
	// large buffers: growth beyond the doubling regime of append (>= 256
	// elements), exactly full with the head far from slot 0.
	for i := 0; i < c.Pick(6, 60); i++ {
		rng := c.Rng("c07-large", i)
		h := c.NewHist("large")
		st := &c07state{}
		h.Emit(c07exec(c, st, Op{"op": "new", "v": []int{-2, 0, 300, 500}[rng.Intn(4)]}, rng))
		next := 1
		do := func(name string) {
			op := Op{"op": name}
			if name == "add" || name == "push" {
				op["v"] = next
				next++
			}
			h.Emit(c07exec(c, st, op, rng))
		}
		for round := 0; round < 3; round++ {
			fill := 260 + rng.Intn(300)
			for st.q.Len() < fill {
				do([]string{"add", "add", "add", "push"}[rng.Intn(4)])
			}
			_, _, size := queueState(st.q)
			if size < 0 {
				size = st.q.Len()
			}
			// move the head: pop/add (or poplast/push) pairs while nearly full
			shift := rng.Intn(size + 1)
			for j := 0; j < shift; j++ {
				if rng.Intn(8) == 0 {
					do("poplast")
					do("push")
				} else {
					do("pop")
					do("add")
				}
			}
			// fill exactly and overflow from either end
			for st.q.Len() < size {
				do("add")
			}
			do([]string{"add", "push"}[rng.Intn(2)])
			h.Emit(c07exec(c, st, Op{"op": []string{"add", "push"}[rng.Intn(2)], "v": next, "full": 1}, rng))
			next++
			for j := rng.Intn(200); j > 0; j-- {
				do([]string{"pop", "poplast"}[rng.Intn(2)])
			}
		}
	}
	for i := 0; i < c.Pick(3, 24); i++ {
		rng := c.Rng("c07-huge", i)
		h := c.NewHist("huge")
		st := &c07state{}
		h.Emit(c07exec(c, st, Op{"op": "new", "v": []int{-2, 4096, 5000, 8192}[i%4]}, rng))
		next := 1
		do := func(name string, full int) {
			op := Op{"op": name, "full": full, "offs": []int{0, -1, 1, 2047, -2048}}
			if name == "add" || name == "push" {
				op["v"] = next
				next++
			}
			h.Emit(c07exec(c, st, op, rng))
		}
		target := 4096 + rng.Intn(1200)
		for st.q.Len() < target {
			do("add", 0)
		}
		_, _, size := queueState(st.q)
		if size < 0 {
			size = st.q.Len()
		}
		// move the head into the upper half (or anywhere), staying nearly full
		shift := size/2 + rng.Intn(size/2)
		if i%3 == 2 {
			shift = rng.Intn(size)
		}
		for j := 0; j < shift; j++ {
			do("pop", 0)
			do("add", 0)
		}
		for st.q.Len() < size {
			do("add", 0)
		}
		do([]string{"push", "add"}[i%2], 1) // regrow of a full, wrapped buffer
		do("push", 0)
		do("add", 1)
		for j := 0; j < 40; j++ {
			do([]string{"pop", "poplast"}[rng.Intn(2)], b2i(j == 39))
		}
	}
	nh := c.Pick(200, 6000)
	for i := 0; i < nh; i++ {
		c.genGuard(func() {
			rng := c.Rng("c07", i)
			kinds := []string{"uniform", "pushy", "alternate", "fill-drain", "wrap"}
			kind := kinds[i%len(kinds)]
			h := c.NewHist(kind)
			st := &c07state{}
			init := []int{-1, -2, 0, 1, 2, 3, 4, 5, 7, 8, 16}[rng.Intn(11)]
			h.Emit(c07exec(c, st, Op{"op": "new", "v": init}, rng))
			nops := 20 + rng.Intn(c.Pick(60, 120))
			next := 1
			for j := 0; j < nops; j++ {
				var op Op
				r := rng.Intn(100)
				fresh := func(name string) Op { next++; return Op{"op": name, "v": next - 1} }
				switch kind {
				case "uniform":
					switch {
					case r < 30:
						op = fresh("add")
					case r < 55:
						op = fresh("push")
					case r < 75:
						op = Op{"op": "pop"}
					case r < 95:
						op = Op{"op": "poplast"}
					default:
						op = Op{"op": "clear"}
					}
				case "pushy":
					switch {
					case r < 55:
						op = fresh("push")
					case r < 70:
						op = fresh("add")
					case r < 85:
						op = Op{"op": "poplast"}
					default:
						op = Op{"op": "pop"}
					}
				case "alternate":
					switch j % 4 {
					case 0:
						op = fresh("add")
					case 1:
						op = fresh("push")
					case 2:
						if r < 50 {
							op = Op{"op": "pop"}
						} else {
							op = fresh("push")
						}
					default:
						if r < 40 {
							op = Op{"op": "poplast"}
						} else {
							op = fresh("add")
						}
					}
				case "fill-drain":
					phase := (j / 12) % 2
					if phase == 0 {
						if r < 50 {
							op = fresh("add")
						} else {
							op = fresh("push")
						}
					} else {
						if r < 50 {
							op = Op{"op": "pop"}
						} else {
							op = Op{"op": "poplast"}
						}
					}
				default: // wrap: keep the queue near full while the head moves
					if st.q.Len() > 0 && r < 45 {
						if r < 25 {
							op = Op{"op": "pop"}
						} else {
							op = Op{"op": "poplast"}
						}
					} else if r < 75 {
						op = fresh("add")
					} else {
						op = fresh("push")
					}
				}
				h.Emit(c07exec(c, st, op, rng))
			}
		})
	}
}
