package main

// C03: stree.Cursor.  A history builds one tree (keys inserted in the given
// order, no removals afterwards) and then drives two cursors.  Events:
// new {pre, beta, rem} -> shape = [key, left, right] | [] read back through
// cursors; cursor {c, key}; root {c}; next|prev|left|right|up|min|max {c};
// clone {c, c2}.  After every event: cs = status of both cursors
// [valid, key, hasNext, hasPrev, hasLeft, hasRight, hasParent], ino = Inorder
// of the operated cursor, inopre = the same stopped after `stop` keys.

import (
	"cmp"
	"encoding/json"
	"math"
	"math/rand"

	"github.com/creachadair/mds/stree"
)

func init() { props["C03"] = &Prop{Run: runC03, Replay: replayC03} }

type c03state struct {
	t   *stree.Tree[int]
	cur [3]*stree.Cursor[int]
}

func shapeOf(c *stree.Cursor[int]) []any {
	if !c.Valid() {
		return []any{}
	}
	return []any{c.Key(), shapeOf(c.Clone().Left()), shapeOf(c.Clone().Right())}
}

func curStatus(c *stree.Cursor[int]) [7]int {
	return [7]int{b2i(c.Valid()), c.Key(), b2i(c.HasNext()), b2i(c.HasPrev()), b2i(c.HasLeft()), b2i(c.HasRight()), b2i(c.HasParent())}
}

func c03exec(c *Ctx, st *c03state, op Op, rng *rand.Rand) Ev {
	name := gets(op, "op")
	ci, c2 := geti(op, "c"), geti(op, "c2")
	if ci == 0 {
		ci = 1
	}
	ev := Ev{"op": name, "c": ci, "c2": c2, "key": geti(op, "key"), "pre": []int{}, "rem": []int{}, "beta": 0,
		"shape": []any{}, "cs": [][7]int{}, "ino": []int{}, "stop": 0, "inopre": []int{}, "mag": 0}
	guard(ev, func() {
		switch name {
		case "new":
			pre, rem, beta := getis(op, "pre"), getis(op, "rem"), geti(op, "beta")
			ev["pre"], ev["rem"], ev["beta"] = ints(pre), ints(rem), beta
			cf := cmp.Compare[int]
			switch geti(op, "mag") { // any magnitude is a legal comparator result
			case 1:
				cf = func(a, b int) int { return 7 * (a - b) }
			case 2:
				cf = func(a, b int) int { return (a - b) << 32 }
			case 3:
				cf = func(a, b int) int { return (a - b) << 31 }
			case 4:
				cf = func(a, b int) int {
					switch {
					case a < b:
						return math.MinInt
					case a > b:
						return math.MaxInt
					}
					return 0
				}
			}
			ev["mag"] = geti(op, "mag")
			st.t = stree.New(beta, cf)
			for _, k := range pre {
				st.t.Add(k)
			}
			for _, k := range rem {
				st.t.Remove(k)
			}
			st.cur = [3]*stree.Cursor[int]{}
			ev["shape"] = shapeOf(st.t.Root())
		case "fork":
			// continue on a Clone of the tree; the original is then changed (keys removed and
			// added) and dropped: nothing of that may show in the clone, whose shape is unchanged
			orig := st.t
			st.t = orig.Clone()
			for _, k := range getis(op, "rem") {
				orig.Remove(k)
				orig.Add(k + 1)
			}
			ev["rem"] = ints(getis(op, "rem"))
			st.cur = [3]*stree.Cursor[int]{}
			ev["shape"] = shapeOf(st.t.Root())
		case "cursor":
			st.cur[ci] = st.t.Cursor(geti(op, "key"))
		case "root":
			st.cur[ci] = st.t.Root()
		case "next":
			st.cur[ci] = st.cur[ci].Next()
		case "prev":
			st.cur[ci] = st.cur[ci].Prev()
		case "left":
			st.cur[ci] = st.cur[ci].Left()
		case "right":
			st.cur[ci] = st.cur[ci].Right()
		case "up":
			st.cur[ci] = st.cur[ci].Up()
		case "min":
			st.cur[ci] = st.cur[ci].Min()
		case "max":
			st.cur[ci] = st.cur[ci].Max()
		case "clone":
			st.cur[c2] = st.cur[ci].Clone()
		default:
			die("C03: unknown op %q", name)
		}
		ev["cs"] = [][7]int{curStatus(st.cur[1]), curStatus(st.cur[2])}
		o := ci
		if name == "clone" {
			o = c2
		}
		ino := []int{}
		st.cur[o].Inorder(func(k int) bool { ino = append(ino, k); return true })
		ev["ino"] = ino
		stop := 0
		if has(op, "stop") {
			stop = geti(op, "stop")
		} else if rng != nil && rng.Intn(3) == 0 {
			stop = 1 + rng.Intn(len(ino)+1)
		} else if rng == nil && len(ino) > 2 {
			stop = 2
		}
		ev["stop"] = stop
		pre := []int{}
		st.cur[o].Inorder(func(k int) bool { pre = append(pre, k); return stop == 0 || len(pre) < stop })
		ev["inopre"] = pre
	})
	return ev
}

func replayC03(c *Ctx, h *Hist, ops []Op) {
	st := &c03state{}
	for _, op := range ops {
		h.Emit(c03exec(c, st, op, nil))
	}
}

func runC03(c *Ctx) {
	// direction A: every (shape, start node, move) of the model
	type tp struct {
		Pre   []int    `json:"pre"`
		Start int      `json:"start"`
		Moves []string `json:"moves"`
	}
	for _, raw := range c.RawPaths {
		var p tp
		if err := json.Unmarshal(raw, &p); err != nil {
			die("C03 path: %v", err)
		}
		h := c.NewHist("tlc-shape-move")
		st := &c03state{}
		h.Emit(c03exec(c, st, Op{"op": "new", "pre": p.Pre, "beta": 1000, "mag": c.nextH % 5}, nil))
		h.Emit(c03exec(c, st, Op{"op": "cursor", "c": 1, "key": p.Start}, nil))
		h.Emit(c03exec(c, st, Op{"op": "clone", "c": 1, "c2": 2}, nil))
		for _, m := range p.Moves {
			h.Emit(c03exec(c, st, Op{"op": m, "c": 1}, nil))
		}
		// the clone must not have moved; now move it back and forth
		h.Emit(c03exec(c, st, Op{"op": "up", "c": 2}, nil))
	}
	moves := []string{"next", "prev", "left", "right", "up", "min", "max"}
	// deep trees: a long spine (no rebalancing) with a bushy subtree at its
	// bottom, cursors working below depth 64 with clones in between
	for i := 0; i < c.Pick(5, 60); i++ {
		rng := c.Rng("c03-deep", i)
		h := c.NewHist("deep-spine")
		st := &c03state{}
		spine := 70 + rng.Intn(60)
		var pre []int
		for j := 0; j < spine; j++ {
			pre = append(pre, 10*j) // ascending: each key the right child of the previous
		}
		base := 10 * spine
		bush := []int{base + 400, base + 200, base + 600, base + 100, base + 300, base + 500, base + 700, base + 50, base + 150, base + 650, base + 750}
		pre = append(pre, bush...)
		h.Emit(c03exec(c, st, Op{"op": "new", "pre": pre, "beta": 1000, "mag": rng.Intn(5)}, rng))
		emit := func(op Op) { op["stop"] = 1; h.Emit(c03exec(c, st, op, rng)) }
		for j := 0; j < 14; j++ {
			// position a cursor in the bushy bottom, clone it, then make one of the two
			// climb and descend again (shorten, then extend the path); both are observed
			ci := 1 + rng.Intn(2)
			emit(Op{"op": "cursor", "c": ci, "key": bush[rng.Intn(len(bush))]})
			emit(Op{"op": "clone", "c": ci, "c2": 3 - ci})
			mover := 1 + rng.Intn(2)
			for k := 1 + rng.Intn(3); k > 0; k-- {
				emit(Op{"op": []string{"up", "up", "next", "prev"}[rng.Intn(4)], "c": mover})
			}
			for k := 1 + rng.Intn(3); k > 0; k-- {
				emit(Op{"op": []string{"left", "right", "min", "max", "next", "prev"}[rng.Intn(6)], "c": mover})
			}
			emit(Op{"op": moves[rng.Intn(len(moves))], "c": 3 - mover})
		}
	}
	nh := c.Pick(300, 8000)
	for i := 0; i < nh; i++ {
		c.genGuard(func() {
			rng := c.Rng("c03", i)
			h := c.NewHist("random-moves")
			st := &c03state{}
			n := 1 + rng.Intn(c.Pick(24, 48))
			if rng.Intn(20) == 0 {
				n = 0
			}
			var pre, rem []int
			switch rng.Intn(4) {
			case 0: // skewed: mostly ascending
				for j := 0; j < n; j++ {
					pre = append(pre, 10+j*2+rng.Intn(2))
				}
			case 1: // zig-zag
				for j := 0; j < n; j++ {
					if j%2 == 0 {
						pre = append(pre, 100+j)
					} else {
						pre = append(pre, 100-j)
					}
				}
			default:
				for j := 0; j < n; j++ {
					pre = append(pre, 1+rng.Intn(3*n))
				}
			}
			beta := []int{0, 250, 500, 750, 900, 999, 1000, 1000}[rng.Intn(8)]
			for j := 0; j < n/4; j++ {
				if rng.Intn(2) == 0 {
					rem = append(rem, pre[rng.Intn(len(pre))])
				}
			}
			h.Emit(c03exec(c, st, Op{"op": "new", "pre": pre, "rem": rem, "beta": beta, "mag": []int{0, 0, 1, 2, 3, 4}[rng.Intn(6)]}, rng))
			nops := 20 + rng.Intn(40)
			for j := 0; j < nops; j++ {
				ci := 1 + rng.Intn(2)
				r := rng.Intn(100)
				var op Op
				switch {
				case r < 10:
					k := 0
					if len(pre) > 0 && rng.Intn(4) != 0 {
						k = pre[rng.Intn(len(pre))]
					} else {
						k = rng.Intn(200) - 20
					}
					op = Op{"op": "cursor", "c": ci, "key": k}
				case r < 14:
					op = Op{"op": "root", "c": ci}
				case r < 17 && len(pre) > 0:
					// look a key up, fork, change the original around that key, look it up again and walk
					k := pre[rng.Intn(len(pre))]
					h.Emit(c03exec(c, st, Op{"op": "cursor", "c": ci, "key": k}, rng))
					var rem []int
					for m := 1 + rng.Intn(3); m > 0; m-- {
						rem = append(rem, pre[rng.Intn(len(pre))])
					}
					h.Emit(c03exec(c, st, Op{"op": "fork", "rem": rem}, rng))
					h.Emit(c03exec(c, st, Op{"op": "cursor", "c": ci, "key": k}, rng))
					op = Op{"op": []string{"next", "prev"}[rng.Intn(2)], "c": ci}
				case r < 26:
					op = Op{"op": "clone", "c": ci, "c2": 3 - ci}
				default:
					op = Op{"op": moves[rng.Intn(len(moves))], "c": ci}
				}
				h.Emit(c03exec(c, st, op, rng))
			}
		})
	}
}
