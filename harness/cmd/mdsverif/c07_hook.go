//go:build verif

package main

import "github.com/creachadair/mds/queue"

func queueState(q *queue.Queue[int]) (head, n, size int) { return q.VerifState() }
