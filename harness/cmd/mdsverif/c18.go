package main

// C18: mapset.Set.  Three named set variables (initially nil).  Events: mk
// {x, items} (x = New(items...)); add/remove {x, items}; addall/removeall {x,
// y}; clear {x}; clone {x -> y}; intersect {items = operand names -> y};
// keys/values/range {x, items}; pop {x} -> ret.  After every event, for each
// set: [nil, Len, IsEmpty, members seen through Has over a probe universe,
// Slice sorted, Append([99]) sorted tail]; preds = for every ordered pair
// [a, b, Intersects, IsSubset, Equals]; hass = [a, args, HasAll, HasAny].

import (
	"maps"
	"math/rand"
	"slices"
	"sort"

	"github.com/creachadair/mds/mapset"
)

func init() { props["C18"] = &Prop{Run: runC18, Replay: replayC18} }

type c18state struct {
	s [4]mapset.Set[int]
}

var c18argLists = [][]int{{}, {1}, {2}, {1, 2}, {1, 1, 2}, {3}, {1, 3}, {2, 2}, {4}, {1, 2, 3}}

func c18exec(st *c18state, op Op) Ev {
	name := gets(op, "op")
	x, y := geti(op, "x"), geti(op, "y")
	items := getis(op, "items")
	ev := Ev{"op": name, "x": x, "y": y, "items": ints(items), "ret": 0, "sets": []any{}, "preds": [][5]int{}, "hass": []any{}}
	guard(ev, func() {
		switch name {
		case "new":
			st.s = [4]mapset.Set[int]{}
		case "mk":
			st.s[x] = mapset.New(items...)
		case "add":
			st.s[x].Add(items...)
		case "addall":
			st.s[x].AddAll(st.s[y])
		case "remove":
			st.s[x].Remove(items...)
		case "removeall":
			st.s[x].RemoveAll(st.s[y])
		case "clear":
			st.s[x].Clear()
		case "clone":
			st.s[y] = st.s[x].Clone()
		case "intersect":
			var ops []mapset.Set[int]
			for _, n := range items {
				ops = append(ops, st.s[n])
			}
			st.s[y] = mapset.Intersect(ops...)
		case "keys":
			m := map[int]string{}
			for _, k := range items {
				m[k] = "v"
			}
			st.s[x] = mapset.Keys(m)
		case "values":
			m := map[string]int{}
			for i, v := range items {
				m[string(rune('a'+i))] = v
			}
			st.s[x] = mapset.Values(m)
		case "range":
			st.s[x] = mapset.Range(slices.Values(items))
		case "pop":
			ev["ret"] = st.s[x].Pop()
		default:
			die("C18: unknown op %q", name)
		}
		sets := []any{}
		for i := 1; i <= 3; i++ {
			s := st.s[i]
			var members []int
			for p := -1; p <= 8; p++ {
				if s.Has(p) {
					members = append(members, p)
				}
			}
			sl := s.Slice()
			sort.Ints(sl)
			ap := s.Append([]int{99})
			tail := append([]int(nil), ap[1:]...)
			sort.Ints(tail)
			// also: the map itself must hold nothing beyond the probe universe
			extra := 0
			for k := range maps.Keys(s) {
				if k < -1 || k > 8 {
					extra++
				}
			}
			sets = append(sets, []any{b2i(s == nil), s.Len() + extra, b2i(s.IsEmpty()), ints(members), ints(sl), append([]int{ap[0]}, tail...)})
		}
		ev["sets"] = sets
		preds := [][5]int{}
		for a := 1; a <= 3; a++ {
			for b := 1; b <= 3; b++ {
				preds = append(preds, [5]int{a, b, b2i(st.s[a].Intersects(st.s[b])), b2i(st.s[a].IsSubset(st.s[b])), b2i(st.s[a].Equals(st.s[b]))})
			}
		}
		ev["preds"] = preds
		hass := []any{}
		for a := 1; a <= 3; a++ {
			for _, args := range c18argLists {
				hass = append(hass, []any{a, ints(args), b2i(st.s[a].HasAll(args...)), b2i(st.s[a].HasAny(args...))})
			}
		}
		ev["hass"] = hass
	})
	return ev
}

func replayC18(c *Ctx, h *Hist, ops []Op) {
	st := &c18state{}
	for _, op := range ops {
		h.Emit(c18exec(st, op))
	}
}

func runC18(c *Ctx) {
	for _, p := range c.Paths {
		replayC18(c, c.NewHist("tlc-path"), p)
	}
	nh := c.Pick(300, 8000)
	for i := 0; i < nh; i++ {
		c.genGuard(func() {
			rng := c.Rng("c18", i)
			h := c.NewHist("random")
			st := &c18state{}
			do := func(op Op) { h.Emit(c18exec(st, op)) }
			do(Op{"op": "new"})
			items := func() []int {
				out := make([]int, rng.Intn(5))
				for j := range out {
					out[j] = 1 + rng.Intn(5)
				}
				return out
			}
			for j := 20 + rng.Intn(40); j > 0; j-- {
				x, y := 1+rng.Intn(3), 1+rng.Intn(3)
				switch rng.Intn(14) {
				case 0:
					do(Op{"op": "mk", "x": x, "items": items()})
				case 1, 2:
					do(Op{"op": "add", "x": x, "items": items()})
				case 3:
					do(Op{"op": "addall", "x": x, "y": y})
				case 4, 5:
					do(Op{"op": "remove", "x": x, "items": append(items(), items()...)})
				case 6:
					do(Op{"op": "removeall", "x": x, "y": y})
				case 7:
					do(Op{"op": "clear", "x": x})
				case 8:
					do(Op{"op": "clone", "x": x, "y": y})
				case 9:
					ops := make([]int, rng.Intn(4))
					for k := range ops {
						ops[k] = 1 + rng.Intn(3)
					}
					do(Op{"op": "intersect", "items": ops, "y": y})
				case 10:
					do(Op{"op": []string{"keys", "values", "range"}[rng.Intn(3)], "x": x, "items": items()})
				default:
					do(Op{"op": "pop", "x": x})
				}
			}
		})
	}
}

var _ = rand.Int
