package main

// C18: mapset.Set.  Three named set variables (initially nil).  Events: mk
// {x, items} (x = New(items...)); add/remove {x, items}; addall/removeall {x,
// y}; clear {x}; clone {x -> y}; intersect {items = operand names -> y};
// keys/values/range {x, items}; pop {x} -> ret.  After every event, for each
// set: [nil, Len, IsEmpty, members seen through Has over a probe universe,
// Slice sorted, Append([99]) sorted tail]; preds = for every ordered pair
// [a, b, Intersects, IsSubset, Equals]; hass = [a, args, HasAll, HasAny].

import (
	"maps"
	"math/rand"
	"slices"
	"sort"

	"github.com/creachadair/mds/mapset"
)

func init() { props["C18"] = &Prop{Run: runC18, Replay: replayC18} }

type c18state struct {
	s [4]mapset.Set[int]
}

var c18argLists = [][]int{{}, {1}, {2}, {1, 2}, {1, 1, 2}, {3}, {1, 3}, {2, 2}, {4}, {1, 2, 3}}

func c18exec(st *c18state, op Op) Ev {
	name := gets(op, "op")
	x, y := geti(op, "x"), geti(op, "y")
	items := getis(op, "items")
	ev := Ev{"op": name, "x": x, "y": y, "items": ints(items), "ret": 0, "sets": []any{}, "preds": [][5]int{}, "hass": []any{},
		"lo": geti(op, "lo"), "hi": geti(op, "hi"), "big": 0}
	guard(ev, func() {
		switch name {
		case "new":
			st.s = [4]mapset.Set[int]{}
		case "mk":
			st.s[x] = mapset.New(items...)
		case "add":
			st.s[x].Add(items...)
		case "addrange": // Add(lo, lo+1, ..., hi-1)
			lo, hi := geti(op, "lo"), geti(op, "hi")
			vals := make([]int, 0, hi-lo)
			for v := lo; v < hi; v++ {
				vals = append(vals, v)
			}
			st.s[x].Add(vals...)
		case "addall":
			st.s[x].AddAll(st.s[y])
		case "remove":
			st.s[x].Remove(items...)
		case "removeall":
			st.s[x].RemoveAll(st.s[y])
		case "clear":
			st.s[x].Clear()
		case "clone":
			st.s[y] = st.s[x].Clone()
		case "intersect":
			var ops []mapset.Set[int]
			for _, n := range items {
				ops = append(ops, st.s[n])
			}
			st.s[y] = mapset.Intersect(ops...)
		case "keys":
			m := map[int]string{}
			for _, k := range items {
				m[k] = "v"
			}
			st.s[x] = mapset.Keys(m)
		case "values":
			m := map[string]int{}
			for i, v := range items {
				m[string(rune('a'+i))] = v
			}
			st.s[x] = mapset.Values(m)
		case "range":
			st.s[x] = mapset.Range(slices.Values(items))
		case "pop":
			ev["ret"] = st.s[x].Pop()
		default:
			die("C18: unknown op %q", name)
		}
		big := st.s[1].Len() > 64 || st.s[2].Len() > 64 || st.s[3].Len() > 64
		ev["big"] = b2i(big)
		sets := []any{}
		for i := 1; i <= 3 && big; i++ {
			// large sets: Len, IsEmpty and membership probes only (members = [value, has])
			s := st.s[i]
			probes := [][2]int{}
			for _, p := range []int{-1, 0, 1, 2, 63, 64, 65, 255, 256, 65535, 65536, 65537, 65538, 70000, 131071, 131072} {
				probes = append(probes, [2]int{p, b2i(s.Has(p))})
			}
			sets = append(sets, []any{b2i(s == nil), s.Len(), b2i(s.IsEmpty()), probes, len(s.Slice()), len(s.Append([]int{99}))})
		}
		for i := 1; i <= 3 && !big; i++ {
			s := st.s[i]
			var members []int
			for p := -1; p <= 8; p++ {
				if s.Has(p) {
					members = append(members, p)
				}
			}
			sl := s.Slice()
			sort.Ints(sl)
			ap := s.Append([]int{99})
			tail := append([]int(nil), ap[1:]...)
			sort.Ints(tail)
			// also: the map itself must hold nothing beyond the probe universe
			extra := 0
			for k := range maps.Keys(s) {
				if k < -1 || k > 8 {
					extra++
				}
			}
			sets = append(sets, []any{b2i(s == nil), s.Len() + extra, b2i(s.IsEmpty()), ints(members), ints(sl), append([]int{ap[0]}, tail...)})
		}
		ev["sets"] = sets
		// the 27 relation queries (9 ordered pairs x Intersects, IsSubset, Equals) are asked in cyclic
		// order starting at query number po: with po' = po - 1 the first query after the next call
		// is the very one that was asked last before it
		po := ((geti(op, "po") % 27) + 27) % 27
		ev["po"] = po
		var tab [9][3]int
		for t := 0; t < 27; t++ {
			q := (po + t) % 27
			pair, rel := q/3, q%3
			a, b := 1+pair/3, 1+pair%3
			switch rel {
			case 0:
				tab[pair][0] = b2i(st.s[a].Intersects(st.s[b]))
			case 1:
				tab[pair][1] = b2i(st.s[a].IsSubset(st.s[b]))
			default:
				tab[pair][2] = b2i(st.s[a].Equals(st.s[b]))
			}
		}
		preds := [][5]int{}
		for pair := 0; pair < 9; pair++ {
			preds = append(preds, [5]int{1 + pair/3, 1 + pair%3, tab[pair][0], tab[pair][1], tab[pair][2]})
		}
		ev["preds"] = preds
		hass := []any{}
		for a := 1; a <= 3; a++ {
			for _, args := range c18argLists {
				hass = append(hass, []any{a, ints(args), b2i(st.s[a].HasAll(args...)), b2i(st.s[a].HasAny(args...))})
			}
		}
		ev["hass"] = hass
	})
	return ev
}

func replayC18(c *Ctx, h *Hist, ops []Op) {
	st := &c18state{}
	for _, op := range ops {
		h.Emit(c18exec(st, op))
	}
}

func runC18(c *Ctx) {
	for _, p := range c.Paths {
		replayC18(c, c.NewHist("tlc-path"), p)
	}
	// sets whose sizes differ by a multiple of 2^16 (and 2^8): integer-width corners of Len comparisons
	for i := 0; i < c.Pick(2, 10); i++ {
		c.genGuard(func() {
			rng := c.Rng("c18-big", i)
			h := c.NewHist("big-sets")
			st := &c18state{}
			do := func(op Op) { h.Emit(c18exec(st, op)) }
			do(Op{"op": "new"})
			small := rng.Intn(4)
			width := []int{65536, 65536, 256, 131072}[i%4]
			do(Op{"op": "addrange", "x": 1, "lo": 0, "hi": small})
			do(Op{"op": "addrange", "x": 2, "lo": 0, "hi": small + width})
			do(Op{"op": "clone", "x": 2, "y": 3})
			do(Op{"op": "remove", "x": 3, "items": []int{small + width - 1}})
			do(Op{"op": "addall", "x": 1, "y": 3})
			do(Op{"op": "removeall", "x": 2, "y": 1})
			do(Op{"op": "intersect", "items": []int{1, 3, 2}, "y": 2})
		})
	}
	nh := c.Pick(300, 8000)
	for i := 0; i < nh; i++ {
		c.genGuard(func() {
			rng := c.Rng("c18", i)
			h := c.NewHist("random")
			st := &c18state{}
			po := 0
			do := func(op Op) {
				if rng.Intn(2) == 0 {
					po = (po + 26) % 27 // ask first what was asked last
				} else {
					po = rng.Intn(27)
				}
				op["po"] = po
				h.Emit(c18exec(st, op))
			}
			do(Op{"op": "new"})
			items := func() []int {
				out := make([]int, rng.Intn(5))
				for j := range out {
					out[j] = 1 + rng.Intn(5)
				}
				return out
			}
			for j := 20 + rng.Intn(40); j > 0; j-- {
				x, y := 1+rng.Intn(3), 1+rng.Intn(3)
				switch rng.Intn(14) {
				case 0:
					do(Op{"op": "mk", "x": x, "items": items()})
				case 1, 2:
					do(Op{"op": "add", "x": x, "items": items()})
				case 3:
					do(Op{"op": "addall", "x": x, "y": y})
				case 4, 5:
					do(Op{"op": "remove", "x": x, "items": append(items(), items()...)})
				case 6:
					do(Op{"op": "removeall", "x": x, "y": y})
				case 7:
					do(Op{"op": "clear", "x": x})
				case 8:
					do(Op{"op": "clone", "x": x, "y": y})
				case 9:
					nops := rng.Intn(4)
					if rng.Intn(4) == 0 {
						nops = 60 + rng.Intn(30) // more operands than a machine word has bits
					}
					ops := make([]int, nops)
					for k := range ops {
						ops[k] = 1 + rng.Intn(3)
					}
					if nops > 60 { // mostly one operand, the odd ones late in the list
						for k := range ops {
							ops[k] = ops[0]
						}
						ops[nops-1-rng.Intn(20)] = 1 + rng.Intn(3)
					}
					do(Op{"op": "intersect", "items": ops, "y": y})
				case 10:
					do(Op{"op": []string{"keys", "values", "range"}[rng.Intn(3)], "x": x, "items": items()})
				default:
					do(Op{"op": "pop", "x": x})
				}
			}
		})
	}
}

var _ = rand.Int
