//go:build !verif

package main

import (
	"math/rand/v2"

	"github.com/creachadair/mds/distinct"
)

const c19hooks = false

func c19new(size int, src rand.Source) *distinct.Counter[int] { return distinct.NewCounter[int](size) }
func c19k(c *distinct.Counter[int]) int                       { return -1 }
func c19buf(c *distinct.Counter[int]) []int                   { return nil }
