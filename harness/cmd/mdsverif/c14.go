package main

// C14: mdiff text formats.  One record per (Left, Right, n, unify, palette,
// header): the diff's chunks, and for each format the formatter's text LEXED
// into hunks (header numbers as written, -1 = not written; body lines as
// [tag, line]) — the driver does not interpret ranges — plus what the real
// readers return for that text and whether re-formatting reproduces the bytes.
// Lines are symbols 1..3 in the record; `pal` maps them to the actual strings
// used in the call (including empty lines and lines that look like diff syntax).

import (
	"bytes"
	"encoding/json"
	"io"
	"math/rand"
	"os"
	"regexp"
	"strconv"
	"strings"
	"time"

	"github.com/creachadair/mds/mdiff"
)

func init() { props["C14"] = &Prop{Run: runC14, Replay: replayC14} }

var c14lines = []string{"", "a", "b", "c", "", "-x", "+x", "<", "> y", "@@ -1 +1 @@", " ", "---", "diff a", "--- a", "+++ b",
	"*** 1 ****", "***************", "\\ No newline at end of file", "3a4", "1,2c3", "- y", "! z", "+ w", "  ",
	"100% done", "%d items %s", "50%", strings.Repeat("long line ", 500), strings.Repeat("x", 4095), strings.Repeat("y", 4096) + " tail",
	"tab\there", "\r", "caf\u00e9 \u2028 x"}

var c14palettes = [][3]int{{1, 2, 3}, {4, 5, 6}, {7, 8, 9}, {10, 11, 12}, {13, 14, 15}, {16, 17, 18}, {19, 20, 21}, {22, 23, 1},
	{4, 11, 10}, {5, 6, 2}, {9, 13, 12}, {1, 4, 23}, {24, 25, 26}, {27, 28, 29}, {30, 31, 32}, {24, 27, 4}, {26, 29, 1}}

type c14ctx struct {
	pal [3]int
	rev map[string]int
}

func newC14ctx(pal [3]int) *c14ctx {
	x := &c14ctx{pal: pal, rev: map[string]int{}}
	for k, id := range pal {
		x.rev[c14lines[id]] = k + 1
	}
	return x
}
func (x *c14ctx) str(sym int) string {
	if sym >= 1 && sym <= 3 {
		return c14lines[x.pal[sym-1]]
	}
	return "??" + strconv.Itoa(sym)
}
func (x *c14ctx) strs(v []int) []string {
	out := make([]string, len(v))
	for i, s := range v {
		out[i] = x.str(s)
	}
	return out
}
func (x *c14ctx) sym(s string) int {
	if k, ok := x.rev[s]; ok {
		return k
	}
	return -1
}
func (x *c14ctx) syms(v []string) []int {
	out := make([]int, len(v))
	for i, s := range v {
		out[i] = x.sym(s)
	}
	return out
}
func (x *c14ctx) edits(es []mdiff.Edit) []any {
	out := make([]any, 0, len(es))
	for _, e := range es {
		out = append(out, []any{string(rune(e.Op)), x.syms(e.X), x.syms(e.Y)})
	}
	return out
}
func (x *c14ctx) chunks(cs []*mdiff.Chunk) []any {
	out := make([]any, 0, len(cs))
	for _, c := range cs {
		out = append(out, map[string]any{"ls": c.LStart, "le": c.LEnd, "rs": c.RStart, "re": c.REnd, "edits": x.edits(c.Edits)})
	}
	return out
}

func num(s string) int {
	if s == "" {
		return -1
	}
	n, err := strconv.Atoi(s)
	if err != nil {
		return -99
	}
	return n
}

func splitLines(text string) []string {
	if text == "" {
		return nil
	}
	ls := strings.Split(text, "\n")
	if ls[len(ls)-1] == "" {
		ls = ls[:len(ls)-1]
	}
	return ls
}

var reUni = regexp.MustCompile(`^@@ -(\d+)(?:,(\d+))? \+(\d+)(?:,(\d+))? @@$`)
var reNor = regexp.MustCompile(`^(\d+)(?:,(\d+))?([acd])(\d+)(?:,(\d+))?$`)
var reCtxOld = regexp.MustCompile(`^\*\*\* (\d+)(?:,(\d+))? \*\*\*\*$`)
var reCtxNew = regexp.MustCompile(`^--- (\d+)(?:,(\d+))? ----$`)

// lexUnified: hunks [[s,c,t,d], [[tag,line]...]]; bad = text the lexer cannot place.
func (x *c14ctx) lexUnified(text string, hasHdr bool) (hunks []any, bad string) {
	ls := splitLines(text)
	if hasHdr {
		if len(ls) < 2 || !strings.HasPrefix(ls[0], "--- ") || !strings.HasPrefix(ls[1], "+++ ") {
			return []any{}, "missing file header"
		}
		ls = ls[2:]
	}
	hunks = []any{}
	var body []any
	var hdr []int
	flush := func() {
		if hdr != nil {
			if body == nil {
				body = []any{}
			}
			hunks = append(hunks, []any{hdr, body})
		}
		hdr, body = nil, nil
	}
	for _, line := range ls {
		if m := reUni.FindStringSubmatch(line); m != nil && !(hdr != nil && false) {
			flush()
			hdr = []int{num(m[1]), num(m[2]), num(m[3]), num(m[4])}
			continue
		}
		if hdr == nil || line == "" {
			return hunks, "stray line " + strconv.Quote(line)
		}
		body = append(body, []any{line[:1], x.sym(line[1:])})
	}
	flush()
	return hunks, ""
}

func (x *c14ctx) lexNormal(text string) (hunks []any, bad string) {
	hunks = []any{}
	var body []any
	var hdr []any
	flush := func() {
		if hdr != nil {
			if body == nil {
				body = []any{}
			}
			hunks = append(hunks, []any{hdr, body})
		}
		hdr, body = nil, nil
	}
	for _, line := range splitLines(text) {
		switch {
		case strings.HasPrefix(line, "< "):
			body = append(body, []any{"<", x.sym(line[2:])})
		case strings.HasPrefix(line, "> "):
			body = append(body, []any{">", x.sym(line[2:])})
		case line == "---":
			body = append(body, []any{"---", 0})
		default:
			m := reNor.FindStringSubmatch(line)
			if m == nil {
				return hunks, "stray line " + strconv.Quote(line)
			}
			flush()
			hdr = []any{num(m[1]), num(m[2]), m[3], num(m[4]), num(m[5])}
		}
		if hdr == nil {
			return hunks, "body before command"
		}
	}
	flush()
	return hunks, ""
}

func (x *c14ctx) lexContext(text string, hasHdr bool) (hunks []any, bad string) {
	ls := splitLines(text)
	if hasHdr {
		if len(ls) < 2 || !strings.HasPrefix(ls[0], "*** ") || !strings.HasPrefix(ls[1], "--- ") {
			return []any{}, "missing file header"
		}
		ls = ls[2:]
	}
	hunks = []any{}
	i := 0
	for i < len(ls) {
		if ls[i] != "***************" {
			return hunks, "expected hunk separator, got " + strconv.Quote(ls[i])
		}
		i++
		if i >= len(ls) {
			return hunks, "truncated hunk"
		}
		m := reCtxOld.FindStringSubmatch(ls[i])
		if m == nil {
			return hunks, "bad old range " + strconv.Quote(ls[i])
		}
		hd := []int{num(m[1]), num(m[2]), 0, 0}
		i++
		ob, nb := []any{}, []any{}
		for i < len(ls) && reCtxNew.FindStringSubmatch(ls[i]) == nil {
			if len(ls[i]) < 2 || ls[i][1] != ' ' {
				return hunks, "bad old line " + strconv.Quote(ls[i])
			}
			ob = append(ob, []any{ls[i][:1], x.sym(ls[i][2:])})
			i++
		}
		if i >= len(ls) {
			return hunks, "missing new range"
		}
		m = reCtxNew.FindStringSubmatch(ls[i])
		hd[2], hd[3] = num(m[1]), num(m[2])
		i++
		for i < len(ls) && ls[i] != "***************" {
			if len(ls[i]) < 2 || ls[i][1] != ' ' {
				return hunks, "bad new line " + strconv.Quote(ls[i])
			}
			nb = append(nb, []any{ls[i][:1], x.sym(ls[i][2:])})
			i++
		}
		hunks = append(hunks, []any{hd, ob, nb})
	}
	return hunks, ""
}

var c14names = []string{"a", "b", "left file.txt", "dir/right-file", "x y z", "a/old.go", "b/new.go"}
var c14base = time.Date(2020, 1, 1, 0, 0, 0, 0, time.UTC)

// time as [present, seconds since 2020-01-01 UTC, microseconds, zone offset seconds]
func timeJ(t time.Time) [4]int {
	if t.IsZero() {
		return [4]int{0, 0, 0, 0}
	}
	_, off := t.Zone()
	return [4]int{1, int(t.Unix() - c14base.Unix()), t.Nanosecond() / 1000, off}
}
func nameID(s string) int {
	for i, n := range c14names {
		if n == s {
			return i + 1
		}
	}
	return -1
}
func fiJ(fi *mdiff.FileInfo) []any {
	if fi == nil {
		return []any{0, 0, [4]int{}, [4]int{}}
	}
	return []any{nameID(fi.Left), nameID(fi.Right), timeJ(fi.LeftTime), timeJ(fi.RightTime)}
}

func c14rec(lhs, rhs []int, n int, unify bool, palIdx int, hdr int) Ev {
	x := newC14ctx(c14palettes[palIdx%len(c14palettes)])
	empty := map[string]any{"hunks": []any{}, "parsed": []any{}, "same": true, "perr": "", "fi": []any{0, 0, [4]int{}, [4]int{}}, "lexerr": ""}
	cp := func() map[string]any {
		m := map[string]any{}
		for k, v := range empty {
			m[k] = v
		}
		return m
	}
	ev := Ev{"op": "new", "lhs": ints(lhs), "rhs": ints(rhs), "n": n, "unify": unify, "pal": palIdx, "hdr": hdr,
		"chunks": []any{}, "rchunks": []any{}, "uni": cp(), "nor": cp(), "ctx": cp(), "git": cp(), "fi": fiJ(nil), "gfi": fiJ(nil)}
	guard(ev, func() {
		d := mdiff.New(x.strs(lhs), x.strs(rhs))
		if unify {
			// rendering is an observation: doing it before the chunks are widened and merged
			// must not change what is rendered afterwards
			if (len(lhs)+n)%2 == 0 {
				d.Format(io.Discard, mdiff.Context, nil)
				d.Format(io.Discard, mdiff.Unified, nil)
				d.Format(io.Discard, mdiff.Normal, nil)
			}
			d.AddContext(n)
			if (len(rhs)+n)%3 == 0 {
				d.Format(io.Discard, mdiff.Context, nil)
				d.Format(io.Discard, mdiff.Unified, nil)
			}
			d.Unify()
		}
		ev["chunks"] = x.chunks(d.Chunks)
		// header: 0 = none, 1 = names only, 2 = names + timestamps
		var fi *mdiff.FileInfo
		if hdr > 0 {
			fi = &mdiff.FileInfo{Left: c14names[(palIdx+n)%len(c14names)], Right: c14names[(palIdx+2*n+1)%len(c14names)]}
			if hdr == 2 {
				zone := time.FixedZone("", []int{0, 3600, -5 * 3600, 5*3600 + 1800}[(palIdx+n)%4])
				fi.LeftTime = time.Date(2021, 3, 4, 5, 6, 7, 123456000, zone).Add(time.Duration(palIdx) * time.Hour)
				fi.RightTime = time.Date(2024, 12, 31, 23, 59, 59, 0, zone).Add(time.Duration(n) * time.Minute)
			}
		}
		ev["fi"] = fiJ(fi)
		// the git wrapper always carries a header (ReadGitPatch requires one)
		gfi := fi
		if gfi == nil {
			gfi = &mdiff.FileInfo{Left: "a/old.go", Right: "b/new.go"}
		}
		ev["gfi"] = fiJ(gfi)

		var ub, nb, cb bytes.Buffer
		d.Format(&ub, mdiff.Unified, fi)
		d.Format(&nb, mdiff.Normal, fi)
		d.Format(&cb, mdiff.Context, fi)

		if os.Getenv("MDSVERIF_RAW") == "1" { // bin/crosscheck: the texts themselves, for /usr/bin/patch
			bl := func(ss []string) [][]int {
				out := make([][]int, len(ss))
				for i, s := range ss {
					out[i] = bytesJ(s)
				}
				return out
			}
			ev["raw"] = map[string]any{"l": bl(x.strs(lhs)), "r": bl(x.strs(rhs)), "unified": bytesJ(ub.String()),
				"normal": bytesJ(nb.String()), "context": bytesJ(cb.String())}
		}
		uni := cp()
		uni["hunks"], uni["lexerr"] = x.lexUnified(ub.String(), fi != nil && len(d.Chunks) > 0)
		if len(d.Chunks) > 0 {
			if p, err := mdiff.ReadUnified(bytes.NewReader(ub.Bytes())); err != nil {
				uni["perr"] = err.Error()
			} else {
				uni["parsed"] = x.chunks(p.Chunks)
				uni["fi"] = fiJ(p.FileInfo)
				var rb bytes.Buffer
				p.Format(&rb, mdiff.Unified)
				uni["same"] = bytes.Equal(rb.Bytes(), ub.Bytes())
			}
		} else {
			uni["fi"] = fiJ(fi) // nothing is written for an empty diff
		}
		ev["uni"] = uni

		nor := cp()
		nor["hunks"], nor["lexerr"] = x.lexNormal(nb.String())
		if p, err := mdiff.Read(bytes.NewReader(nb.Bytes())); err != nil {
			nor["perr"] = err.Error()
		} else {
			nor["parsed"] = x.chunks(p.Chunks)
			var rb bytes.Buffer
			p.Format(&rb, mdiff.Normal)
			nor["same"] = bytes.Equal(rb.Bytes(), nb.Bytes())
		}
		ev["nor"] = nor

		ctx := cp()
		ctx["hunks"], ctx["lexerr"] = x.lexContext(cb.String(), fi != nil && len(d.Chunks) > 0)
		ev["ctx"] = ctx

		// git-style wrapper with three file sections: this diff, the reverse
		// diff (Right -> Left), and this diff again under other names
		git := cp()
		git["parsed2"], git["parsed3"] = []any{}, []any{}
		rd := mdiff.New(x.strs(rhs), x.strs(lhs))
		if unify {
			rd.AddContext(n).Unify()
		}
		ev["rchunks"] = x.chunks(rd.Chunks)
		if len(d.Chunks) > 0 {
			var gb, gu, gr, g3 bytes.Buffer
			d.Format(&gu, mdiff.Unified, gfi)
			rd.Format(&gr, mdiff.Unified, &mdiff.FileInfo{Left: "b/new.go", Right: "a/old.go"})
			d.Format(&g3, mdiff.Unified, &mdiff.FileInfo{Left: "x y z", Right: "dir/right-file"})
			gb.WriteString("diff --git a/old.go b/new.go\nindex 0123abc..4567def 100644\n")
			gb.Write(gu.Bytes())
			gb.WriteString("diff --git b/new.go a/old.go\nnew file mode 100644\nindex 0000000..4567def\n")
			gb.Write(gr.Bytes())
			gb.WriteString("diff --git x y\n")
			gb.Write(g3.Bytes())
			if ps, err := mdiff.ReadGitPatch(bytes.NewReader(gb.Bytes())); err != nil {
				git["perr"] = err.Error()
			} else if len(ps) != 3 {
				git["perr"] = "want 3 patches, got " + strconv.Itoa(len(ps))
			} else {
				git["parsed"] = x.chunks(ps[0].Chunks)
				git["parsed2"] = x.chunks(ps[1].Chunks)
				git["parsed3"] = x.chunks(ps[2].Chunks)
				git["fi"] = fiJ(ps[0].FileInfo)
				var rb bytes.Buffer
				ps[0].Format(&rb, mdiff.Unified)
				git["same"] = bytes.Equal(rb.Bytes(), gu.Bytes())
				if fiJ(ps[2].FileInfo)[0] != nameID("x y z") || fiJ(ps[1].FileInfo)[1] != nameID("a/old.go") {
					git["perr"] = "file names of later sections not preserved"
				}
			}
		} else {
			git["fi"] = fiJ(gfi)
		}
		ev["git"] = git
	})
	return ev
}

func replayC14(c *Ctx, h *Hist, ops []Op) {
	for _, op := range ops {
		h.Emit(c14rec(getis(op, "lhs"), getis(op, "rhs"), geti(op, "n"), getb(op, "unify"), geti(op, "pal"), geti(op, "hdr")))
	}
}

func runC14(c *Ctx) {
	k := 0
	for _, raw := range c.RawPaths {
		var in c13in
		if json.Unmarshal(raw, &in) != nil {
			continue
		}
		// New alone, and New + AddContext(n) + Unify for every n
		c.NewHist("tlc-input").Emit(c14rec(in.Lhs, in.Rhs, 0, false, k, k%3))
		for n := 0; n <= in.MaxN; n++ {
			k++
			c.NewHist("tlc-input").Emit(c14rec(in.Lhs, in.Rhs, n, true, k, k%3))
		}
	}
	cnt := c.Pick(1500, 60000)
	for i := 0; i < cnt; i++ {
		rng := c.Rng("c14", i)
		var a, b []int
		clamp := func(v []int) []int {
			for j := range v {
				v[j] = 1 + ((v[j]%3)+3)%3
			}
			return v
		}
		switch i % 3 {
		case 0:
			a, b = relatedPair(rng, 24, 3)
		case 1:
			a, b = gappyPair(rng)
		default:
			a, b = relatedPair(rng, 12, 2)
		}
		a, b = clamp(a), clamp(b)
		n := rng.Intn(6)
		c.NewHist("random").Emit(c14rec(a, b, n, rng.Intn(4) != 0, rng.Intn(len(c14palettes)), rng.Intn(3)))
	}
	c.Extra["lines"] = c14lines
}

var _ = rand.Int
