package main

// C08: cache.Cache with the LRU store, sequential use.  Keys are ints, values
// {Tag, Size}.  Events: new {limit, unit} (unit: default size function, every
// entry counts 1; otherwise WithSize(Size)); put {k, v} -> res; get {k} -> rv
// = [tag, size, ok]; has {k} -> res; remove {k} -> res; clear.  After every
// call: len, size, evs = the OnEvict callbacks fired during the call
// [[key, tag, size]].

import (
	"github.com/creachadair/mds/cache"
)

func init() { props["C08"] = &Prop{Run: runC08, Replay: replayC08} }

type cv struct{ Tag, Size int }

type c08state struct {
	c   *cache.Cache[int, cv]
	evs [][3]int
}

func cvOf(v any) cv {
	a, _ := v.([]any)
	if len(a) < 2 {
		return cv{}
	}
	return cv{int(a[0].(float64)), int(a[1].(float64))}
}

func c08exec(c *Ctx, st *c08state, op Op) Ev {
	name := gets(op, "op")
	k := geti(op, "k")
	ev := Ev{"op": name, "k": k, "v": [2]int{0, 0}, "limit": 0, "unit": false, "res": true, "rv": [3]int{0, 0, 0},
		"len": 0, "size": 0, "evs": [][3]int{}, "n": 0}
	guard(ev, func() {
		st.evs = nil
		switch name {
		case "new":
			limit, unit := geti(op, "limit"), getb(op, "unit")
			ev["limit"], ev["unit"] = limit, unit
			cfg := cache.LRU[int, cv]().OnEvict(func(key int, v cv) {
				st.evs = append(st.evs, [3]int{key, v.Tag, v.Size})
			})
			if !unit {
				cfg = cfg.WithSize(func(v cv) int64 { return int64(v.Size) })
			}
			st.c = cache.New(int64(limit), cfg)
		case "put":
			v := cvOf(op["v"])
			ev["v"] = [2]int{v.Tag, v.Size}
			ev["res"] = st.c.Put(k, v)
		case "get":
			v, ok := st.c.Get(k)
			ev["rv"] = [3]int{v.Tag, v.Size, b2i(ok)}
		case "getn": // n consecutive Gets of the same key; same is false if any answer differed from the first
			n := geti(op, "n")
			ev["n"] = n
			v0, ok0 := st.c.Get(k)
			same := true
			for j := 1; j < n; j++ {
				if v, ok := st.c.Get(k); v != v0 || ok != ok0 {
					same = false
				}
			}
			ev["rv"] = [3]int{v0.Tag, v0.Size, b2i(ok0)}
			ev["res"] = same
		case "fill": // Put keys k .. k+n-1 (value {key, 1}) in order; res = every Put reported true
			n := geti(op, "n")
			ev["n"] = n
			all := true
			for j := 0; j < n; j++ {
				if !st.c.Put(k+j, cv{k + j, 1}) {
					all = false
				}
			}
			ev["res"] = all
		case "has":
			ev["res"] = st.c.Has(k)
		case "remove":
			ev["res"] = st.c.Remove(k)
		case "clear":
			st.c.Clear()
		default:
			die("C08: unknown op %q", name)
		}
		ev["len"] = st.c.Len()
		ev["size"] = st.c.Size()
		if st.evs != nil {
			ev["evs"] = st.evs
		}
	})
	return ev
}

func replayC08(c *Ctx, h *Hist, ops []Op) {
	st := &c08state{}
	for _, op := range ops {
		h.Emit(c08exec(c, st, op))
	}
}

func runC08(c *Ctx) {
	for _, p := range c.Paths {
		replayC08(c, c.NewHist("tlc-path"), p)
		// reveal the complete recency order the real cache ended up with: as
		// many fresh keys as the limit evict every older entry, in order
		if len(p) > 1 && len(p) <= 14 && getb(p[0], "unit") {
			q := append([]Op{}, p...)
			lim := geti(p[0], "limit")
			for j := 0; j < lim; j++ {
				q = append(q, Op{"op": "put", "k": 1000 + j, "v": []any{float64(9), float64(1)}})
			}
			replayC08(c, c.NewHist("tlc-path+reveal"), q)
		}
	}
	// integer-width corners: an entry that stays unused while another is used
	// tens of thousands of times; more than 2^16 resident entries
	for i := 0; i < c.Pick(2, 8); i++ {
		rng := c.Rng("c08-wide", i)
		h := c.NewHist("wide")
		st := &c08state{}
		do := func(op Op) { h.Emit(c08exec(c, st, op)) }
		if i%2 == 0 {
			lim := 2 + rng.Intn(3)
			do(Op{"op": "new", "limit": lim, "unit": true})
			do(Op{"op": "fill", "k": 1, "n": lim})
			for r := 0; r < 3; r++ {
				do(Op{"op": "getn", "k": lim, "n": 33000 + rng.Intn(40000)})
				do(Op{"op": "put", "k": 100 + r, "v": []any{float64(100 + r), float64(1)}})
				do(Op{"op": "get", "k": lim})
			}
			do(Op{"op": "clear"})
		} else {
			n := 66000 + rng.Intn(5000)
			do(Op{"op": "new", "limit": n, "unit": true})
			do(Op{"op": "fill", "k": 1, "n": n})
			for j := 0; j < 12; j++ {
				do(Op{"op": []string{"get", "has", "remove"}[rng.Intn(3)], "k": n - rng.Intn(4000)})
			}
			do(Op{"op": "put", "k": n + 1, "v": []any{float64(7), float64(1)}})
			do(Op{"op": "put", "k": n + 2, "v": []any{float64(8), float64(1)}})
		}
	}
	nh := c.Pick(400, 10000)
	for i := 0; i < nh; i++ {
		c.genGuard(func() {
			rng := c.Rng("c08", i)
			kind := []string{"mixed", "remove-then-use", "unit", "bytes", "reuse", "big", "after-remove"}[i%7]
			h := c.NewHist(kind)
			st := &c08state{}
			do := func(op Op) { h.Emit(c08exec(c, st, op)) }
			limit := 1 + rng.Intn(12)
			unit := kind == "unit" || kind == "remove-then-use" || kind == "after-remove" || (kind != "bytes" && rng.Intn(2) == 0)
			nkeys := limit + 1 + rng.Intn(4)
			if kind == "big" {
				limit = 7 + rng.Intn(10)
				nkeys = limit + 2 + rng.Intn(6)
				unit = true
			}
			do(Op{"op": "new", "limit": limit, "unit": unit})
			tag := 0
			val := func() []any {
				tag++
				sz := rng.Intn(4)
				if rng.Intn(10) == 0 {
					sz = limit + rng.Intn(3) // sometimes exactly at or above the limit
				}
				return []any{float64(tag), float64(sz)}
			}
			nops := 30 + rng.Intn(c.Pick(80, 200))
			if kind == "after-remove" {
				// fill; Remove one entry; use one or two of the others (Get/Has/Put);
				// then push `limit` fresh keys so that the evictions reveal the
				// whole recency order the cache holds.
				fresh := 100
				for round := 0; round < 8; round++ {
					var live []int
					for len(live) < limit {
						fresh++
						live = append(live, fresh)
						do(Op{"op": "put", "k": fresh, "v": []any{float64(fresh), float64(1)}})
					}
					for g := rng.Intn(3); g > 0; g-- {
						do(Op{"op": "get", "k": live[rng.Intn(len(live))]})
					}
					for rm := 1 + rng.Intn(2); rm > 0 && len(live) > 1; rm-- {
						x := rng.Intn(len(live))
						do(Op{"op": "remove", "k": live[x]})
						live = append(live[:x], live[x+1:]...)
						for u := 1 + rng.Intn(2); u > 0; u-- {
							kk := live[rng.Intn(len(live))]
							switch rng.Intn(4) {
							case 0:
								do(Op{"op": "has", "k": kk})
							case 1:
								do(Op{"op": "put", "k": kk, "v": val()})
							default:
								do(Op{"op": "get", "k": kk})
							}
						}
					}
					for j := 0; j < limit; j++ {
						fresh++
						do(Op{"op": "put", "k": fresh, "v": []any{float64(fresh), float64(1)}})
					}
					do(Op{"op": "clear"})
				}
				return
			}
			for j := 0; j < nops; j++ {
				k := 1 + rng.Intn(nkeys)
				r := rng.Intn(100)
				switch kind {
				case "remove-then-use", "big":
					switch {
					case r < 35:
						do(Op{"op": "put", "k": k, "v": val()})
					case r < 55:
						do(Op{"op": "remove", "k": k})
						if rng.Intn(2) == 0 {
							do(Op{"op": "get", "k": 1 + rng.Intn(nkeys)})
						}
					case r < 85:
						do(Op{"op": "get", "k": k})
					case r < 98:
						do(Op{"op": "has", "k": k})
					default:
						do(Op{"op": "clear"})
					}
				default:
					switch {
					case r < 40:
						do(Op{"op": "put", "k": k, "v": val()})
					case r < 65:
						do(Op{"op": "get", "k": k})
					case r < 78:
						do(Op{"op": "has", "k": k})
					case r < 95:
						do(Op{"op": "remove", "k": k})
					default:
						do(Op{"op": "clear"})
					}
				}
			}
			do(Op{"op": "clear"})
		})
	}
}
