// Command mdsverif drives the real creachadair/mds code for the TLA+-based
// checks in /verif.  It has no oracle of its own: it executes operations on
// the real data structures and logs what they returned; TLC decides.
//
//	mdsverif run <PROP> -seed N -tier quick|thorough -paths FILE -out DIR -shards K
//	    execute TLC-generated operation paths (if any) and the property's own
//	    seeded generators; write DIR/shard-XX.ndjson (events) and DIR/meta.json.
//	mdsverif confirm <PROP> -witness FILE -out FILE
//	    re-execute the operations of one recorded history (a witness) in a
//	    fresh process and write the events observed now.
package main

import (
	"bufio"
	"encoding/json"
	"flag"
	"fmt"
	"math/rand"
	"os"
	"path/filepath"
	"sort"
	"strings"
	"sync/atomic"
	"time"
)

// Op is one operation record (from a TLC path, a generator, or a witness event).
type Op = map[string]any

// Ev is one logged event.
type Ev = map[string]any

// Prop is the per-property driver.
type Prop struct {
	// Run executes paths and generators, emitting events through c.
	Run func(c *Ctx)
	// Replay re-executes the operations of one history.
	Replay func(c *Ctx, h *Hist, ops []Op)
}

var props = map[string]*Prop{}

// Ctx carries run parameters and the output sink.
type Ctx struct {
	Prop     string
	Seed     int64
	Tier     string
	Paths    [][]Op            // TLC-generated operation paths (arrays of op records)
	RawPaths []json.RawMessage // TLC-generated lines of any other shape
	outDir   string
	shards   []*bufio.Writer
	files    []*os.File
	nextH    int
	nEvents  int
	single   *bufio.Writer // confirm mode
	Counters map[string]int
	Samples  []any
	Extra    map[string]any
	lastHist *Hist        // the history most recently created or written to
	beat     atomic.Int64 // unix nanoseconds of the last sign of progress
	finish   func()       // flushes and closes the outputs
}

// Beat tells the watchdog that the harness is making progress without emitting events.
func (c *Ctx) Beat() { c.beat.Store(time.Now().UnixNano()) }

// Thorough reports whether the thorough tier was requested.
func (c *Ctx) Thorough() bool { return c.Tier == "thorough" }

// Pick returns q for the quick tier and t for the thorough tier.
func (c *Ctx) Pick(q, t int) int {
	if c.Thorough() {
		return t
	}
	return q
}

// Rng returns a deterministic generator for the given stream label.
func (c *Ctx) Rng(label string, i int) *rand.Rand {
	var hsh int64 = 1469598103934665603
	for _, b := range []byte(label) {
		hsh = (hsh ^ int64(b)) * 1099511628211
	}
	return rand.New(rand.NewSource(c.Seed*1000003 + hsh + int64(i)*7919))
}

// Count bumps a named coverage counter reported in meta.json.
func (c *Ctx) Count(name string) {
	c.Counters[name]++
}

// Hist is one history (a sequence of events that starts from a fresh object).
type Hist struct {
	c   *Ctx
	ID  int
	Gen string
	w   *bufio.Writer
	n   int
}

// NewHist starts a new history; gen names the generator (for evidence).
func (c *Ctx) NewHist(gen string) *Hist {
	c.nextH++
	h := &Hist{c: c, ID: c.nextH, Gen: gen}
	if c.single != nil {
		h.w = c.single
	} else {
		h.w = c.shards[(h.ID-1)%len(c.shards)]
	}
	c.Counters["hist:"+gen]++
	c.lastHist = h
	c.beat.Store(time.Now().UnixNano())
	return h
}

// watchdog: a call into the code under test that does not return (a cycle in a linked
// structure, a loop that no longer terminates) would hang the harness for ever.  After
// `limit` without a new event or history, the current history gets a final event whose
// panic field says so, the outputs are closed, and the process ends.  The specifications
// never allow a non-empty panic field, so the history is rejected; the confirming re-run
// hangs at the same call and reports the same.
func (c *Ctx) watchdog(limit time.Duration) {
	c.beat.Store(time.Now().UnixNano())
	go func() {
		for {
			time.Sleep(limit / 8)
			if time.Since(time.Unix(0, c.beat.Load())) < limit {
				continue
			}
			if h := c.lastHist; h != nil {
				ev := Ev{"op": "hang", "h": h.ID, "panic": fmt.Sprintf("no progress for %v after event %d of this history: the call does not return", limit, h.n)}
				b, _ := json.Marshal(ev)
				h.w.Write(b)
				h.w.WriteByte('\n')
				c.nEvents++
				c.Counters["hang"]++
			}
			if c.finish != nil {
				c.finish()
			}
			os.Exit(0)
		}
	}()
}

// Emit logs one event of h.
func (h *Hist) Emit(ev Ev) {
	ev["h"] = h.ID
	if _, ok := ev["panic"]; !ok {
		ev["panic"] = ""
	}
	b, err := json.Marshal(ev)
	if err != nil {
		die("marshal: %v", err)
	}
	h.w.Write(b)
	h.w.WriteByte('\n')
	h.n++
	h.c.nEvents++
	h.c.lastHist = h
	h.c.beat.Store(time.Now().UnixNano())
	if len(h.c.Samples) < 3 && h.n <= 6 {
		var cp any
		json.Unmarshal(b, &cp)
		h.c.Samples = append(h.c.Samples, cp)
	}
}

// guard runs f; if f panics, the panic value is recorded in ev["panic"] and
// guard reports false.  A panic of the real code in a call the documentation
// allows is a behaviour the specifications never permit.
func guard(ev Ev, f func()) (ok bool) {
	defer func() {
		if r := recover(); r != nil {
			ev["panic"] = fmt.Sprint(r)
			if ev["panic"] == "" {
				ev["panic"] = "panic"
			}
			ok = false
		}
	}()
	f()
	return true
}

// genGuard runs the body of one generated history.  If the generator itself
// trips over inconsistent answers of the code under test (e.g. Len() > 0 but
// no keys), the history simply ends there: the events already logged carry
// the inconsistency to TLC.
func (c *Ctx) genGuard(body func()) {
	defer func() {
		if r := recover(); r != nil {
			c.Counters["generator-aborted"]++
		}
	}()
	body()
}

func die(f string, a ...any) {
	fmt.Fprintf(os.Stderr, "mdsverif: "+f+"\n", a...)
	os.Exit(2)
}

// --- helpers for reading op records -------------------------------------

func geti(o Op, k string) int {
	switch v := o[k].(type) {
	case float64:
		return int(v)
	case int:
		return v
	case bool:
		if v {
			return 1
		}
		return 0
	case nil:
		return 0
	}
	die("op field %q: not a number: %v", k, o[k])
	return 0
}

func has(o Op, k string) bool { _, ok := o[k]; return ok }

func gets(o Op, k string) string {
	s, _ := o[k].(string)
	return s
}

func getb(o Op, k string) bool {
	switch v := o[k].(type) {
	case bool:
		return v
	case float64:
		return v != 0
	}
	return false
}

func getis(o Op, k string) []int {
	switch v := o[k].(type) {
	case []any:
		out := make([]int, len(v))
		for i, x := range v {
			out[i] = int(x.(float64))
		}
		return out
	case []int:
		return v
	}
	return nil
}

func getany(o Op, k string) []any {
	v, _ := o[k].([]any)
	return v
}

func ints(v []int) []int {
	if v == nil {
		return []int{}
	}
	return v
}

func b2i(b bool) int {
	if b {
		return 1
	}
	return 0
}

// readLines reads an ndjson file of arrays/objects.
func readNDJSON[T any](path string) []T {
	f, err := os.Open(path)
	if err != nil {
		die("open %s: %v", path, err)
	}
	defer f.Close()
	var out []T
	sc := bufio.NewScanner(f)
	sc.Buffer(make([]byte, 1<<20), 1<<28)
	for sc.Scan() {
		line := strings.TrimSpace(sc.Text())
		if line == "" {
			continue
		}
		var v T
		if err := json.Unmarshal([]byte(line), &v); err != nil {
			die("parse %s: %v: %.200s", path, err, line)
		}
		out = append(out, v)
	}
	if err := sc.Err(); err != nil {
		die("read %s: %v", path, err)
	}
	return out
}

// hangLimit: the longest single step of any driver takes a few seconds (a 66 000-element heap,
// a 4 000-level tree); C09 and C10 have their own, finer watchdogs.
const hangLimit = 90 * time.Second

func main() {
	if len(os.Args) < 3 {
		die("usage: mdsverif run|confirm <PROP> [flags]")
	}
	mode, prop := os.Args[1], os.Args[2]
	p := props[prop]
	if p == nil {
		var names []string
		for k := range props {
			names = append(names, k)
		}
		sort.Strings(names)
		die("unknown property %q (have %v)", prop, names)
	}
	fs := flag.NewFlagSet(mode, flag.ExitOnError)
	seed := fs.Int64("seed", 1, "seed")
	tier := fs.String("tier", "quick", "tier")
	paths := fs.String("paths", "", "ndjson file of TLC-generated operation paths")
	out := fs.String("out", "", "output directory (run) or file (confirm)")
	shards := fs.Int("shards", 16, "number of shard files")
	witness := fs.String("witness", "", "witness file (confirm)")
	rev := fs.Bool("rev", false, "use the reversed comparator (C04)")
	kind := fs.String("kind", "", "structure to drive (C10: stack|mqueue|list|ring)")
	fs.Parse(os.Args[3:])

	c := &Ctx{Prop: prop, Seed: *seed, Tier: *tier, Counters: map[string]int{}, Extra: map[string]any{}}
	c.Extra["rev"] = *rev
	c.Extra["kind"] = *kind
	switch mode {
	case "run":
		if *out == "" {
			die("-out required")
		}
		os.MkdirAll(*out, 0o755)
		c.outDir = *out
		for i := 0; i < *shards; i++ {
			f, err := os.Create(filepath.Join(*out, fmt.Sprintf("shard-%02d.ndjson", i)))
			if err != nil {
				die("%v", err)
			}
			c.files = append(c.files, f)
			c.shards = append(c.shards, bufio.NewWriterSize(f, 1<<20))
		}
		if *paths != "" {
			c.RawPaths = readNDJSON[json.RawMessage](*paths)
			for _, r := range c.RawPaths {
				if len(r) > 0 && r[0] == '[' {
					var ops []Op
					if err := json.Unmarshal(r, &ops); err != nil {
						die("path: %v", err)
					}
					c.Paths = append(c.Paths, ops)
				}
			}
		}
		c.finish = func() {
			for i, w := range c.shards {
				w.Flush()
				c.files[i].Close()
			}
			meta := map[string]any{
				"property": prop, "seed": *seed, "tier": *tier,
				"histories": c.nextH, "events": c.nEvents, "paths": len(c.RawPaths),
				"counters": c.Counters, "samples": c.Samples, "extra": c.Extra,
			}
			b, _ := json.MarshalIndent(meta, "", " ")
			os.WriteFile(filepath.Join(*out, "meta.json"), b, 0o644)
		}
		c.watchdog(hangLimit)
		p.Run(c)
		c.finish()
	case "confirm":
		if *witness == "" || *out == "" {
			die("-witness and -out required")
		}
		ops := readNDJSON[Op](*witness)
		f, err := os.Create(*out)
		if err != nil {
			die("%v", err)
		}
		c.single = bufio.NewWriter(f)
		h := c.NewHist("confirm")
		if len(ops) > 0 && has(ops[0], "h") {
			h.ID = geti(ops[0], "h")
		}
		c.finish = func() { c.single.Flush(); f.Close() }
		c.watchdog(hangLimit)
		p.Replay(c, h, ops)
		c.finish()
	default:
		die("unknown mode %q", mode)
	}
}
