package main

// C09: cache.Cache under concurrent use.  One trace line per recorded
// concurrent history: {op:"new", limit, unit, procs, ops:[{g, inv, ret, op,
// k, v, res, rv}], cb:[[key, tag, size]]}.  inv/ret are taken from one shared
// atomic counter immediately before the call and immediately after its
// return; cb is the OnEvict log in the order the callbacks ran.  The binary
// for this property is built with -race; data races are reported by the Go
// race detector on stderr (bin/check turns them into violations).

import (
	"math/rand"
	"runtime"
	"sync"
	"sync/atomic"

	"github.com/creachadair/mds/cache"
)

func init() { props["C09"] = &Prop{Run: runC09, Replay: replayC09} }

type c09op struct {
	G        int    `json:"g"`
	Inv      int64  `json:"inv"`
	Ret      int64  `json:"ret"`
	Op       string `json:"op"`
	K        int    `json:"k"`
	V        [2]int `json:"v"`
	Res      int    `json:"res"`
	Rv       [3]int `json:"rv"`
	spinPre  int
	yieldPre bool
}

// runHistory executes the per-goroutine op lists concurrently on a fresh cache.
func c09runHistory(limit int, unit bool, lists [][]c09op, cbYield bool) (ops []c09op, cb [][3]int, pan string) {
	return c09runHistoryF(limit, unit, lists, cbYield, 0, 0)
}

// c09runHistoryF: as c09runHistory, on a cache pre-filled sequentially with keys
// 1001..1000+fill (values {key, fsz}) before the goroutines start.
func c09runHistoryF(limit int, unit bool, lists [][]c09op, cbYield bool, fill, fsz int) (ops []c09op, cb [][3]int, pan string) {
	var seq atomic.Int64
	var cbmu sync.Mutex
	cfg := cache.LRU[int, cv]().OnEvict(func(k int, v cv) {
		cbmu.Lock()
		cb = append(cb, [3]int{k, v.Tag, v.Size})
		cbmu.Unlock()
		if cbYield {
			runtime.Gosched() // widen the window in which a half-done Put could be observed
		}
	})
	if !unit {
		cfg = cfg.WithSize(func(v cv) int64 { return int64(v.Size) })
	}
	c := cache.New(int64(limit), cfg)
	for k := 1001; k <= 1000+fill; k++ {
		c.Put(k, cv{k, fsz})
	}
	var wg sync.WaitGroup
	var panmu sync.Mutex
	start := make(chan struct{})
	for g := range lists {
		wg.Add(1)
		go func(g int) {
			defer wg.Done()
			defer func() {
				if r := recover(); r != nil {
					panmu.Lock()
					pan = "panic in goroutine"
					panmu.Unlock()
				}
			}()
			<-start
			for i := range lists[g] {
				o := &lists[g][i]
				for s := 0; s < o.spinPre; s++ {
					_ = s * s
				}
				if o.yieldPre {
					runtime.Gosched()
				}
				o.Inv = seq.Add(1)
				switch o.Op {
				case "put":
					o.Res = b2i(c.Put(o.K, cv{o.V[0], o.V[1]}))
				case "get":
					v, ok := c.Get(o.K)
					o.Rv = [3]int{v.Tag, v.Size, b2i(ok)}
				case "has":
					o.Res = b2i(c.Has(o.K))
				case "remove":
					o.Res = b2i(c.Remove(o.K))
				case "clear":
					c.Clear()
				case "len":
					o.Res = c.Len()
				case "size":
					o.Res = int(c.Size())
				}
				o.Ret = seq.Add(1)
			}
		}(g)
	}
	close(start)
	wg.Wait()
	for g := range lists {
		ops = append(ops, lists[g]...)
	}
	if cb == nil {
		cb = [][3]int{}
	}
	return ops, cb, pan
}

func c09gen(rng *rand.Rand, thorough bool) (limit int, unit bool, lists [][]c09op) {
	ng := 2 + rng.Intn(3)
	nkeys := 2 + rng.Intn(3)
	limit = 1 + rng.Intn(4)
	unit = rng.Intn(2) == 0
	if !unit {
		limit = 2 + rng.Intn(4)
	}
	maxOps := 4
	if ng == 2 {
		maxOps = 6
	}
	tag := 0
	weights := []string{"put", "put", "put", "get", "get", "has", "remove", "remove", "len", "size", "size", "clear"}
	if rng.Intn(4) == 0 {
		// observer-heavy: the same question (Has k / Len / Size) is asked before and after entries
		// come and go, by the asker's own Puts and by the others'
		weights = []string{"put", "put", "put", "has", "has", "has", "has", "get", "remove", "len", "size"}
		if unit && limit > 2 {
			limit = 1 + rng.Intn(2)
		}
		if rng.Intn(3) == 0 { // one caller only: the sequential special case, independent of the scheduler
			ng, maxOps = 1, 12
		}
	}
	for g := 0; g < ng; g++ {
		n := 2 + rng.Intn(maxOps-1)
		if ng == 1 {
			n = 8 + rng.Intn(5)
		}
		var l []c09op
		for i := 0; i < n; i++ {
			o := c09op{G: g + 1, Op: weights[rng.Intn(len(weights))], K: 1 + rng.Intn(nkeys)}
			if o.Op == "put" {
				tag++
				sz := 1 + rng.Intn(3)
				if rng.Intn(8) == 0 {
					sz = 0
				}
				o.V = [2]int{tag, sz}
			}
			if o.Op == "clear" || o.Op == "len" || o.Op == "size" {
				o.K = 0
			}
			o.spinPre = []int{0, 0, 10, 100, 1000}[rng.Intn(5)]
			o.yieldPre = rng.Intn(3) == 0
			l = append(l, o)
		}
		lists = append(lists, l)
	}
	return
}

// runC09burst: many readers Get all the warm keys at once; when they have all returned, Puts of
// new keys must evict the cold keys, oldest first (BurstTrace.tla).
func runC09burst(c *Ctx) {
	procs := []int{4, 8, 2, 16}
	nh := c.Pick(1500, 20000)
	for i := 0; i < nh; i++ {
		rng := c.Rng("c09-burst", i)
		runtime.GOMAXPROCS(procs[i%len(procs)])
		nCold, nWarm := 1+rng.Intn(3), 16+rng.Intn(48)
		readers := 2 + rng.Intn(4)
		limit := nCold + nWarm
		h := c.NewHist("burst")
		var evs [][3]int
		var mu sync.Mutex
		cc := cache.New(int64(limit), cache.LRU[int, cv]().OnEvict(func(k int, v cv) {
			mu.Lock()
			evs = append(evs, [3]int{k, v.Tag, v.Size})
			mu.Unlock()
		}))
		take := func() [][3]int {
			mu.Lock()
			defer mu.Unlock()
			out := evs
			evs = nil
			if out == nil {
				out = [][3]int{}
			}
			return out
		}
		fill := make([]int, 0, limit)
		// the warm keys are stored FIRST and the keys that will stay cold last: only the burst makes the
		// warm keys more recent than the cold ones, so an access that is lost leaves its key the oldest
		for k := 1; k <= limit; k++ {
			cc.Put(k, cv{k, 1})
			fill = append(fill, k)
		}
		h.Emit(Ev{"op": "new", "limit": limit, "fill": fill, "len": cc.Len(), "size": int(cc.Size()), "evs": take(), "procs": procs[i%len(procs)], "readers": readers})
		warm := fill[:nWarm]
		var miss atomic.Int64
		var wg sync.WaitGroup
		start := make(chan struct{})
		for g := 0; g < readers; g++ {
			wg.Add(1)
			go func(g int) {
				defer wg.Done()
				defer func() {
					if recover() != nil {
						miss.Add(1000000)
					}
				}()
				<-start
				for j := range warm {
					if i%2 == 0 && j%readers != g {
						continue // even histories: every warm key is read by exactly one reader
					}
					k := warm[(j+g*len(warm)/readers)%len(warm)]
					if i%2 == 0 {
						k = warm[j]
					}
					if v, ok := cc.Get(k); !ok || v.Tag != k || v.Size != 1 {
						miss.Add(1)
					}
				}
			}(g)
		}
		close(start)
		wg.Wait()
		h.Emit(Ev{"op": "burst", "keys": warm, "miss": int(miss.Load()), "len": cc.Len(), "size": int(cc.Size()), "evs": take()})
		for j := 0; j < nCold; j++ {
			k := 1000 + j
			ev := Ev{"op": "put", "k": k, "res": false, "len": 0, "size": 0, "evs": [][3]int{}}
			guard(ev, func() {
				ev["res"] = cc.Put(k, cv{k, 1})
				ev["len"], ev["size"], ev["evs"] = cc.Len(), int(cc.Size()), take()
			})
			h.Emit(ev)
		}
	}
}

// runC09duel: two goroutines make one call each on a one-entry cache, then the quiescent state
// is observed (DuelTrace.tla).  One record per duel.
func runC09duel(c *Ctx) {
	procs := []int{2, 4, 8, 16}
	nh := c.Pick(60000, 600000)
	pairs := [][2]string{{"get", "remove"}, {"get", "put"}, {"get", "clear"}, {"get", "evict"},
		{"remove", "remove"}, {"remove", "put"}, {"put", "put"}, {"remove", "clear"}, {"remove", "evict"}, {"put", "clear"},
		{"put", "evict"}, {"get", "get"}}
	for i := 0; i < nh; i++ {
		if i%4096 == 0 {
			runtime.GOMAXPROCS(procs[(i/4096)%len(procs)])
		}
		pr := pairs[i%len(pairs)]
		k, k2 := 1+i%3, 7
		v0, va, vb := 10+i%5, 20+i%7, 30+i%3
		var evs []int
		var mu sync.Mutex
		limit := 4
		if pr[0] == "evict" || pr[1] == "evict" {
			limit = 1
		}
		cc := cache.New(int64(limit), cache.LRU[int, cv]().OnEvict(func(_ int, v cv) {
			mu.Lock()
			evs = append(evs, v.Tag)
			mu.Unlock()
		}))
		cc.Put(k, cv{v0, 1})
		call := func(op string, v int) [3]int {
			switch op {
			case "get":
				x, ok := cc.Get(k)
				return [3]int{x.Tag, x.Size, b2i(ok)}
			case "remove":
				return [3]int{b2i(cc.Remove(k)), 0, 0}
			case "put":
				return [3]int{b2i(cc.Put(k, cv{v, 1})), 0, 0}
			case "clear":
				cc.Clear()
			case "evict":
				return [3]int{b2i(cc.Put(k2, cv{v, 1})), 0, 0}
			}
			return [3]int{0, 0, 0}
		}
		ev := Ev{"op": "new", "v0": v0, "a": map[string]any{"op": pr[0], "v": va}, "b": map[string]any{"op": pr[1], "v": vb},
			"ra": [3]int{-1, -1, -1}, "rb": [3]int{-1, -1, -1}, "get2": [3]int{-1, -1, -1}, "has2": false, "len2": -1, "size2": -1, "evs": []int{}}
		guard(ev, func() {
			var wg sync.WaitGroup
			var ra, rb [3]int
			pa, pb := false, false
			start := make(chan struct{})
			wg.Add(2)
			go func() {
				defer wg.Done()
				defer func() { pa = recover() != nil }()
				<-start
				ra = call(pr[0], va)
			}()
			go func() {
				defer wg.Done()
				defer func() { pb = recover() != nil }()
				<-start
				for s := 0; s < (i/12)%3*7; s++ { // a few different head starts
					_ = s * s
				}
				rb = call(pr[1], vb)
			}()
			close(start)
			wg.Wait()
			if pa || pb {
				panic("a call of the duel panicked")
			}
			v, ok := cc.Get(k)
			ev["ra"], ev["rb"] = ra, rb
			ev["get2"] = [3]int{v.Tag, v.Size, b2i(ok)}
			ev["has2"] = cc.Has(k)
			ev["len2"], ev["size2"] = cc.Len(), int(cc.Size())
			mu.Lock()
			ev["evs"] = ints(evs)
			mu.Unlock()
		})
		c.NewHist("duel").Emit(ev)
	}
}

func runC09(c *Ctx) {
	if k, _ := c.Extra["kind"].(string); k == "burst" {
		runC09burst(c)
		return
	} else if k == "duel" {
		runC09duel(c)
		return
	}
	nh := c.Pick(640, 24000)
	procs := []int{1, 2, 4, 8}
	for i := 0; i < nh; i++ {
		rng := c.Rng("c09", i)
		runtime.GOMAXPROCS(procs[i%len(procs)])
		limit, unit, lists := c09gen(rng, c.Thorough())
		ops, cb, pan := c09runHistory(limit, unit, lists, rng.Intn(2) == 0)
		h := c.NewHist("concurrent")
		h.Emit(Ev{"op": "new", "limit": limit, "unit": unit, "procs": procs[i%len(procs)], "gi": i, "ops": ops, "cb": cb, "panic": pan, "fill": 0, "fsz": 0})
	}
	// large caches: Clear of thousands of entries against observers; one Put that
	// evicts hundreds of entries against another evicting Put
	for i := 0; i < c.Pick(24, 400); i++ {
		rng := c.Rng("c09-big", i)
		runtime.GOMAXPROCS(procs[i%len(procs)])
		var lists [][]c09op
		var limit, fill, fsz int
		unit := false
		mkobs := func(g, n int) []c09op {
			var l []c09op
			for j := 0; j < n; j++ {
				o := c09op{G: g, Op: []string{"len", "size", "has"}[rng.Intn(3)], spinPre: []int{0, 10, 100, 1000, 10000}[rng.Intn(5)], yieldPre: rng.Intn(2) == 0}
				if o.Op == "has" {
					o.K = 1001 + rng.Intn(50)
				}
				l = append(l, o)
			}
			return l
		}
		if i%2 == 0 {
			fill, fsz, unit = 1500+rng.Intn(4000), 1, true
			limit = fill + 10
			lists = [][]c09op{{{G: 1, Op: "clear"}}, mkobs(2, 5), mkobs(3, 4)}
		} else {
			fill, fsz = 120+rng.Intn(200), 1
			limit = fill
			big := fill*3/4 + rng.Intn(fill/8)
			lists = [][]c09op{
				{{G: 1, Op: "put", K: 1, V: [2]int{1, big}}},
				{{G: 2, Op: "put", K: 2, V: [2]int{2, big}, spinPre: []int{0, 100, 10000}[rng.Intn(3)]}},
				mkobs(3, 3),
			}
		}
		ops, cb, pan := c09runHistoryF(limit, unit, lists, true, fill, fsz)
		h := c.NewHist("concurrent-big")
		h.Emit(Ev{"op": "new", "limit": limit, "unit": unit, "procs": procs[i%len(procs)], "gi": i, "ops": ops, "cb": cb, "panic": pan, "fill": fill, "fsz": fsz})
	}
	runtime.GOMAXPROCS(runtime.NumCPU())
}

// replay: re-run the same workload (same per-goroutine call lists) many times
// and keep the first run that is *suspicious by construction* — there is no
// way to force the schedule, so bin/check re-validates every rerun with TLC.
func replayC09(c *Ctx, h *Hist, evs []Op) {
	if len(evs) == 0 {
		return
	}
	e := evs[0]
	limit, unit := geti(e, "limit"), getb(e, "unit")
	byG := map[int][]c09op{}
	maxG := 0
	for _, x := range getany(e, "ops") {
		o := x.(map[string]any)
		v := getany(o, "v")
		op := c09op{G: geti(o, "g"), Op: gets(o, "op"), K: geti(o, "k")}
		if len(v) == 2 {
			op.V = [2]int{int(v[0].(float64)), int(v[1].(float64))}
		}
		op.Inv = int64(geti(o, "inv"))
		byG[op.G] = append(byG[op.G], op)
		if op.G > maxG {
			maxG = op.G
		}
	}
	runtime.GOMAXPROCS(geti(e, "procs"))
	rng := rand.New(rand.NewSource(c.Seed))
	nrep := 300
	if geti(e, "fill") > 0 {
		nrep = 40
	}
	for rep := 0; rep < nrep; rep++ {
		var lists [][]c09op
		for g := 1; g <= maxG; g++ {
			l := append([]c09op(nil), byG[g]...)
			for i := range l {
				l[i].spinPre = []int{0, 0, 10, 100, 1000}[rng.Intn(5)]
				l[i].yieldPre = rng.Intn(3) == 0
			}
			lists = append(lists, l)
		}
		ops, cb, pan := c09runHistoryF(limit, unit, lists, rep%2 == 0, geti(e, "fill"), geti(e, "fsz"))
		hh := c.NewHist("rerun")
		hh.Emit(Ev{"op": "new", "limit": limit, "unit": unit, "procs": geti(e, "procs"), "gi": rep, "ops": ops, "cb": cb, "panic": pan, "fill": geti(e, "fill"), "fsz": geti(e, "fsz")})
	}
}
