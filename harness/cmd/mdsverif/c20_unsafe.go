package main

import "unsafe"

func uintptrOf(b []byte) uintptr { return uintptr(unsafe.Pointer(unsafe.SliceData(b))) }
