package main

// C17: slice utilities.  One record per call: f = function, vs = input
// contents (distinct small ints), spare = extra capacity behind the input,
// k = numeric argument, keep = keep flags; results: r = {out, off, len, cap,
// v, nil}, parts = [{off, len, cap}], concat, after = input afterwards,
// panicked.  Offsets are measured against the input's first element.

import (
	"encoding/json"
	"math"
	"strconv"
	"unsafe"

	"github.com/creachadair/mds/slice"
)

func init() { props["C17"] = &Prop{Run: runC17, Replay: replayC17} }

// mkSlice returns a slice of the given contents sitting inside a larger guarded buffer.
func mkSlice(vs []int, spare int) (buf []int, s []int) {
	buf = make([]int, 2+len(vs)+spare+2)
	for i := range buf {
		buf[i] = -1000 - i
	}
	s = buf[2 : 2+len(vs) : 2+len(vs)+spare]
	copy(s, vs)
	return
}

func offOf(base, sub []int) int {
	if len(sub) == 0 || cap(base) == 0 {
		return -1
	}
	b := unsafe.Pointer(unsafe.SliceData(base))
	p := unsafe.Pointer(unsafe.SliceData(sub))
	return int((uintptr(p) - uintptr(b)) / unsafe.Sizeof(int(0)))
}

// clampK maps an int64 argument into what TLC's 32-bit integers can hold; any
// magnitude beyond 2^30 is "far out of range" for every slice in these runs.
func clampK(k int) int {
	const lim = 1 << 30
	if k > lim {
		return lim
	} else if k < -lim {
		return -lim
	}
	return k
}

func c17rec(f string, vs []int, spare, k int, keep []int, vss [][]int) Ev {
	ev := Ev{"op": "new", "f": f, "vs": ints(vs), "spare": spare, "k": clampK(k), "kx": strconv.Itoa(k), "keep": ints(keep), "vss": [][]int{}, "panicked": false,
		"r": map[string]any{"out": []int{}, "off": -1, "len": 0, "cap": 0, "v": 0, "nil": false}, "parts": []any{}, "concat": []int{}, "after": []int{}, "guard": true}
	if vss != nil {
		ev["vss"] = vss
	}
	buf, s := mkSlice(vs, spare)
	if vs == nil && spare == 0 {
		s = nil
	}
	sub := func(x []int) map[string]any {
		return map[string]any{"out": ints(append([]int(nil), x...)), "off": offOf(s, x), "len": len(x), "cap": cap(x), "v": 0, "nil": false}
	}
	parts := func(ps [][]int) {
		out := []any{}
		cat := []int{}
		pos := 0
		for _, p := range ps {
			off := offOf(s, p)
			if len(p) == 0 {
				off = pos // an empty part has no address of its own
			}
			out = append(out, map[string]any{"off": off, "len": len(p), "cap": cap(p)})
			cat = append(cat, p...)
			pos += len(p)
		}
		ev["parts"], ev["concat"] = out, cat
	}
	ok := guard(ev, func() {
		switch f {
		case "partition":
			km := map[int]bool{}
			for i, fl := range keep {
				if fl == 1 && i < len(vs) {
					km[vs[i]] = true
				}
			}
			ev["r"] = sub(slice.Partition(s, func(v int) bool { return km[v] }))
		case "rotate":
			slice.Rotate(s, k)
		case "chunks":
			parts(slice.Chunks(s, k))
		case "batches":
			parts(slice.Batches(s, k))
		case "head":
			ev["r"] = sub(slice.Head(s, k))
		case "tail":
			ev["r"] = sub(slice.Tail(s, k))
		case "stripe":
			ev["r"] = map[string]any{"out": ints(slice.Stripe(vss, k)), "off": -1, "len": 0, "cap": 0, "v": 0, "nil": false}
		case "at":
			ev["r"] = map[string]any{"out": []int{}, "off": -1, "len": 0, "cap": 0, "v": slice.At(s, k), "nil": false}
		case "ptrat":
			p := slice.PtrAt(s, k)
			r := map[string]any{"out": []int{}, "off": -1, "len": 0, "cap": 0, "v": 0, "nil": p == nil}
			if p != nil {
				r["v"] = *p
				r["off"] = int((uintptr(unsafe.Pointer(p)) - uintptr(unsafe.Pointer(unsafe.SliceData(s)))) / unsafe.Sizeof(int(0)))
			}
			ev["r"] = r
		default:
			die("C17: unknown function %q", f)
		}
	})
	if !ok {
		ev["panicked"] = true
		ev["pmsg"] = ev["panic"]
		ev["panic"] = ""
	}
	ev["after"] = ints(append([]int(nil), s...))
	// nothing outside the slice's own storage may change (guard cells)
	for i, x := range buf {
		if (i < 2 || i >= 2+len(vs)+spare) && x != -1000-i {
			ev["guard"] = false
		}
	}
	return ev
}

func replayC17(c *Ctx, h *Hist, ops []Op) {
	for _, op := range ops {
		var vss [][]int
		for _, x := range getany(op, "vss") {
			var v []int
			for _, y := range x.([]any) {
				v = append(v, int(y.(float64)))
			}
			vss = append(vss, v)
		}
		k := geti(op, "k")
		if kx, err := strconv.Atoi(gets(op, "kx")); err == nil {
			k = kx // the exact (possibly 64-bit) argument
		}
		h.Emit(c17rec(gets(op, "f"), getis(op, "vs"), geti(op, "spare"), k, getis(op, "keep"), vss))
	}
}

func runC17(c *Ctx) {
	iota := func(n int) []int {
		v := make([]int, n)
		for i := range v {
			v[i] = i
		}
		return v
	}
	for _, raw := range c.RawPaths {
		var in struct {
			Op    string `json:"op"`
			N     int    `json:"n"`
			K     int    `json:"k"`
			Keep  []int  `json:"keep"`
			Spare int    `json:"spare"`
		}
		if json.Unmarshal(raw, &in) != nil {
			continue
		}
		c.NewHist("tlc-input").Emit(c17rec(in.Op, iota(in.N), in.Spare, in.K, in.Keep, nil))
	}
	// nil inputs, stripes, and seeded larger arguments
	for _, f := range []string{"partition", "rotate", "chunks", "batches", "head", "tail", "ptrat"} {
		for k := 0; k <= 2; k++ {
			c.NewHist("nil-input").Emit(c17rec(f, nil, 0, k, nil, nil))
		}
	}
	// arguments of extreme magnitude (integer-width corners)
	extremes := []int{math.MinInt, math.MinInt + 1, math.MaxInt, math.MaxInt - 1, 1 << 32, -(1 << 32), 1<<32 + 1, 1 << 31, -(1 << 31), 1<<31 - 1, 1 << 16, 1<<16 + 1}
	for _, f := range []string{"rotate", "chunks", "batches", "head", "tail", "at", "ptrat"} {
		for _, ln := range []int{0, 1, 5} {
			for _, k := range extremes {
				if (f == "head" || f == "tail") && k < 0 {
					continue // negative counts are outside the documentation
				}
				c.NewHist("extreme-arg").Emit(c17rec(f, iota(ln), 0, k, nil, nil))
			}
		}
	}
	// Rotate with consecutive Fibonacci numbers: the deepest recursion of the
	// gcd computation for their size, all cycle lengths exercised
	fa, fb := 1, 2
	for fb < c.Pick(5000, 30000) {
		if fb >= 13 {
			for _, k := range []int{fa, -fa, fb - fa, -(fb - fa)} {
				c.NewHist("fibonacci-rotate").Emit(c17rec("rotate", iota(fb), 0, k, nil, nil))
			}
		}
		fa, fb = fb, fa+fb
	}
	// larger power-of-two / composite sizes with shared factors
	for _, nk := range [][2]int{{1024, 512}, {1024, 768}, {1000, 375}, {2310, 1155}, {4096, 4095}, {3003, 1001}} {
		c.NewHist("big-rotate").Emit(c17rec("rotate", iota(nk[0]), 0, nk[1], nil, nil))
		c.NewHist("big-rotate").Emit(c17rec("rotate", iota(nk[0]), 0, -nk[1], nil, nil))
	}
	// sessions: the functions called back to back with the same length and count (and rotations
	// in both directions and of different amounts in turn) -- each result is a function of its own
	// arguments, whatever was computed just before
	for i := 0; i < c.Pick(300, 6000); i++ {
		rng := c.Rng("c17-sess", i)
		h := c.NewHist("session")
		ln := 2 + rng.Intn(14)
		k := 1 + rng.Intn(ln+1)
		fresh := func() []int {
			vs := iota(ln)
			rng.Shuffle(ln, func(a, b int) { vs[a], vs[b] = vs[b], vs[a] })
			return vs
		}
		order := [][]string{
			{"batches", "chunks", "batches", "chunks"},
			{"chunks", "batches", "chunks"},
			{"rotate", "rotate", "rotate", "rotate"},
			{"partition", "chunks", "rotate", "batches", "partition"},
		}[i%4]
		for j, f := range order {
			switch f {
			case "rotate":
				amt := []int{-(ln - 1), 2, -1, ln - 2}[j%4]
				if j%2 == 1 {
					amt = 1 + rng.Intn(ln-1)
				}
				h.Emit(c17rec("rotate", fresh(), []int{0, 3}[j%2], amt, nil, nil))
			case "partition":
				keep := make([]int, ln)
				for x := range keep {
					keep[x] = b2i(rng.Intn(2) == 0)
				}
				h.Emit(c17rec("partition", fresh(), []int{0, 2}[j%2], 0, keep, nil))
			default:
				h.Emit(c17rec(f, fresh(), 0, k, nil, nil))
			}
		}
	}
	n := c.Pick(3000, 100000)
	for i := 0; i < n; i++ {
		rng := c.Rng("c17", i)
		ln := rng.Intn(40)
		vs := iota(ln)
		rng.Shuffle(ln, func(a, b int) { vs[a], vs[b] = vs[b], vs[a] })
		spare := []int{0, 0, 1, 5}[rng.Intn(4)]
		switch i % 7 {
		case 0:
			keep := make([]int, ln)
			p := []int{10, 50, 90, 100}[rng.Intn(4)]
			for j := range keep {
				keep[j] = b2i(rng.Intn(100) < p)
			}
			c.NewHist("random").Emit(c17rec("partition", vs, spare, 0, keep, nil))
		case 1:
			c.NewHist("random").Emit(c17rec("rotate", vs, spare, rng.Intn(2*ln+5)-ln-2, nil, nil))
		case 2:
			c.NewHist("random").Emit(c17rec("chunks", vs, spare, rng.Intn(ln+4)-1, nil, nil))
		case 3:
			c.NewHist("random").Emit(c17rec("batches", vs, spare, rng.Intn(ln+4)-1, nil, nil))
		case 4:
			c.NewHist("random").Emit(c17rec([]string{"head", "tail"}[rng.Intn(2)], vs, spare, rng.Intn(ln+3), nil, nil))
		case 5:
			c.NewHist("random").Emit(c17rec([]string{"at", "ptrat"}[rng.Intn(2)], vs, spare, rng.Intn(2*ln+5)-ln-2, nil, nil))
		default:
			var vss [][]int
			for j := rng.Intn(6); j > 0; j-- {
				vss = append(vss, iota(rng.Intn(5)))
			}
			if vss == nil {
				vss = [][]int{}
			}
			for j := range vss {
				for k := range vss[j] {
					vss[j][k] += 10 * j
				}
			}
			c.NewHist("random").Emit(c17rec("stripe", nil, 0, rng.Intn(6), nil, vss))
		}
	}
}
