package main

// C15 / C16: package shell.  Strings are byte-code arrays in the records.
// C15 records: {kind: quote|join, ss, q = Quote(ss[0]) | Join(ss), split =
// Split(q)}.  C16 records: {s, split = Split(s), scans = a Scanner over s
// through several reader fragmentations (tokens, Complete() after each,
// Complete()/Err() at the end, Next again, Each, Split), rests = [k, bytes
// read from Rest() after k tokens]}.

import (
	"encoding/json"
	"io"
	"math/rand"
	"strings"
	"testing/iotest"

	"github.com/creachadair/mds/shell"
)

func init() {
	props["C15"] = &Prop{Run: runC15, Replay: replayC15}
	props["C16"] = &Prop{Run: runC16, Replay: replayC16}
}

func bytesJ(s string) []int {
	out := make([]int, len(s))
	for i := 0; i < len(s); i++ {
		out[i] = int(s[i])
	}
	return out
}
func strOf(v []int) string {
	b := make([]byte, len(v))
	for i, x := range v {
		b[i] = byte(x)
	}
	return string(b)
}
func toksJ(ts []string) [][]int {
	out := make([][]int, len(ts))
	for i, t := range ts {
		out[i] = bytesJ(t)
	}
	return out
}
func strsOfAny(v any) []string {
	l, _ := v.([]any)
	out := make([]string, len(l))
	for i, x := range l {
		var bs []int
		for _, y := range x.([]any) {
			bs = append(bs, int(y.(float64)))
		}
		out[i] = strOf(bs)
	}
	return out
}

func c15rec(kind string, ss []string) Ev {
	ev := Ev{"op": "new", "kind": kind, "ss": toksJ(ss), "q": []int{}, "split": map[string]any{"toks": [][]int{}, "ok": false},
		"split2": map[string]any{"toks": [][]int{}, "ok": false}}
	guard(ev, func() {
		var q string
		if kind == "quote" {
			q = shell.Quote(ss[0])
		} else {
			q = shell.Join(ss)
		}
		// hold the result across further calls: it must not be backed by reusable storage
		scr := strings.Repeat("x y'z ", 1+len(q)/4)
		_ = shell.Quote(scr)
		_ = shell.Join([]string{scr, scr})
		ev["q"] = bytesJ(q)
		toks, ok := shell.Split(q)
		ev["split"] = map[string]any{"toks": toksJ(toks), "ok": ok}
		// the same question again, an unrelated and then an incomplete input in between: same answer
		shell.Split("rm -f x")
		shell.Split(q)
		shell.Split(q + " 'oops \"") // incomplete, directly before the question is asked again
		toks2, ok2 := shell.Split(q)
		ev["split2"] = map[string]any{"toks": toksJ(toks2), "ok": ok2}
	})
	return ev
}

func replayC15(c *Ctx, h *Hist, ops []Op) {
	for _, op := range ops {
		h.Emit(c15rec(gets(op, "kind"), strsOfAny(op["ss"])))
	}
}

func runC15(c *Ctx) {
	for _, raw := range c.RawPaths {
		var in struct {
			SS [][]int `json:"ss"`
		}
		if json.Unmarshal(raw, &in) != nil {
			continue
		}
		ss := make([]string, len(in.SS))
		for i, v := range in.SS {
			ss[i] = strOf(v)
		}
		if len(ss) == 1 {
			c.NewHist("tlc-quote").Emit(c15rec("quote", ss))
		}
		c.NewHist("tlc-join").Emit(c15rec("join", ss))
	}
	alpha := []byte("ab '\"\\\t\n$`*?[#~=%|&;<>(){}!^,.-_/:@+\x00\x7f\x80\xc3\xa9\xff\r\v\f\xc2\x85\xc2\xa0")
	// multi-byte sequences some libraries treat as spaces or line breaks
	uni := []string{"\u2028", "\u2029", "\u0085", "\u00a0", "\u3000", "\u2003", "\ufeff", "\u200b", "é", "€"}
	// large results (beyond 64 KiB), held across further calls
	for i := 0; i < c.Pick(2, 6); i++ {
		rng := c.Rng("c15-big", i)
		var sb strings.Builder
		for sb.Len() < 66000+rng.Intn(6000) {
			sb.WriteString([]string{"abcdefgh", "word ", "it's", "x\ty", "$HOME"}[rng.Intn(5)])
		}
		if i%2 == 0 {
			c.NewHist("big-quote").Emit(c15rec("quote", []string{sb.String()}))
		} else {
			c.NewHist("big-join").Emit(c15rec("join", []string{sb.String()[:30000], "", sb.String()[30000:]}))
		}
	}
	n := c.Pick(4000, 150000)
	for i := 0; i < n; i++ {
		rng := c.Rng("c15", i)
		mk := func() string {
			var sb strings.Builder
			for k := rng.Intn(12); k > 0; k-- {
				switch r := rng.Intn(10); {
				case r < 3:
					sb.WriteByte(byte(rng.Intn(256)))
				case r < 4:
					sb.WriteString(uni[rng.Intn(len(uni))])
				default:
					sb.WriteByte(alpha[rng.Intn(len(alpha))])
				}
			}
			if rng.Intn(5) == 0 { // nothing that needs quoting around the multi-byte sequence
				return []string{"a", "", "bc"}[rng.Intn(3)] + uni[rng.Intn(len(uni))] + []string{"a", "", "bc"}[rng.Intn(3)]
			}
			return sb.String()
		}
		if i%2 == 0 {
			c.NewHist("random-quote").Emit(c15rec("quote", []string{mk()}))
		} else {
			ss := make([]string, rng.Intn(5))
			for j := range ss {
				ss[j] = mk()
				if rng.Intn(6) == 0 {
					ss[j] = ""
				}
				if rng.Intn(4) == 0 {
					ss[j] = []string{"a", "cmd", "arg", "x=y", "plain"}[rng.Intn(5)]
				}
			}
			c.NewHist("random-join").Emit(c15rec("join", ss))
		}
	}
}

// ---- C16 -----------------------------------------------------------------------

// flakyEOF returns (0, io.EOF) once the first part is exhausted and, if asked
// again, delivers more data: a Scanner must not resume after the end of input.
type flakyEOF struct {
	first, more []byte
	eofs        int
}

func (f *flakyEOF) Read(p []byte) (int, error) {
	if len(f.first) > 0 {
		n := copy(p, f.first)
		f.first = f.first[n:]
		return n, nil
	}
	if f.eofs == 0 {
		f.eofs++
		return 0, io.EOF
	}
	if len(f.more) > 0 {
		n := copy(p, f.more)
		f.more = f.more[n:]
		return n, nil
	}
	return 0, io.EOF
}

type fragReader struct {
	data []byte
	cuts []int // sizes of successive reads
	i    int
}

func (f *fragReader) Read(p []byte) (int, error) {
	if len(f.data) == 0 {
		return 0, io.EOF
	}
	n := 1
	if f.i < len(f.cuts) {
		n = f.cuts[f.i]
		f.i++
	} else {
		n = len(f.data)
	}
	n = min(n, len(p), len(f.data))
	if n == 0 {
		n = 1
	}
	copy(p, f.data[:n])
	f.data = f.data[n:]
	return n, nil
}

// c16scanner returns a Scanner over r in one of several lifecycle states: fresh,
// or previously used on other input (mid-token, at end of input, after Rest, or
// built on a nil reader) and then Reset.  Reset must make it behave as fresh.
func c16scanner(r io.Reader, mode int) *shell.Scanner {
	switch mode % 5 {
	case 1:
		sc := shell.NewScanner(strings.NewReader("one 'two three"))
		sc.Next()
		sc.Reset(r)
		return sc
	case 2:
		sc := shell.NewScanner(strings.NewReader("x \"y"))
		for sc.Next() {
		}
		sc.Reset(r)
		return sc
	case 3:
		sc := shell.NewScanner(strings.NewReader("p q r s"))
		sc.Next()
		sc.Rest()
		sc.Reset(r)
		return sc
	case 4:
		sc := shell.NewScanner(nil)
		sc.Reset(r)
		return sc
	}
	return shell.NewScanner(r)
}

func c16scan(mk func() io.Reader) map[string]any { return c16scanM(mk, 0) }

func c16scanM(mk func() io.Reader, mode int) map[string]any {
	out := map[string]any{"toks": [][]int{}, "completes": []bool{}, "final": false, "err": "", "again": true,
		"each": [][]int{}, "splitm": [][]int{}, "splitm2": [][]int{}}
	sc := c16scanner(mk(), mode)
	toks, comps := [][]int{}, []bool{}
	for sc.Next() {
		toks = append(toks, bytesJ(sc.Text()))
		comps = append(comps, sc.Complete())
		if len(toks) > 10000 {
			break
		}
	}
	out["toks"], out["completes"] = toks, comps
	out["final"] = sc.Complete()
	if err := sc.Err(); err == io.EOF {
		out["err"] = "EOF"
	} else if err != nil {
		out["err"] = err.Error()
	} else {
		out["err"] = "nil"
	}
	out["again"] = sc.Next() || sc.Next()
	each := [][]int{}
	c16scanner(mk(), mode+1).Each(func(t string) bool { each = append(each, bytesJ(t)); return true })
	out["each"] = each
	sp := c16scanner(mk(), mode+2)
	out["splitm"] = toksJ(sp.Split())
	out["splitm2"] = toksJ(sp.Split()) // the input is exhausted: nothing more
	return out
}

func c16rec(s string, rng *rand.Rand, cutsIn [][]int) Ev {
	ev := Ev{"op": "new", "s": bytesJ(s), "split": map[string]any{"toks": [][]int{}, "ok": false}, "scans": []any{}, "rests": []any{}, "cuts": [][]int{}}
	guard(ev, func() {
		toks, ok := shell.Split(s)
		ev["split"] = map[string]any{"toks": toksJ(toks), "ok": ok}
		scans := []any{
			c16scan(func() io.Reader { return strings.NewReader(s) }),
			c16scan(func() io.Reader { return iotest.OneByteReader(strings.NewReader(s)) }),
		}
		cuts := cutsIn
		if cuts == nil {
			for k := 0; k < 2; k++ {
				var cs []int
				rem := len(s)
				for rem > 0 {
					n := 1
					if rng != nil {
						n = 1 + rng.Intn(4)
					} else {
						n = 2 + k
					}
					cs = append(cs, n)
					rem -= n
				}
				if cs == nil {
					cs = []int{}
				}
				cuts = append(cuts, cs)
			}
		}
		ev["cuts"] = cuts
		for i, cs := range cuts {
			cs := cs
			scans = append(scans, c16scanM(func() io.Reader { return &fragReader{data: []byte(s), cuts: cs} }, i+1))
		}
		// a reader whose end of input is not sticky: tokens are those of the first part only
		scans = append(scans, c16scan(func() io.Reader { return &flakyEOF{first: []byte(s), more: []byte(" zz 'q q' yy\n")} }))
		ev["scans"] = scans
		rests := []any{}
		for k := 0; k <= len(toks)+1; k++ {
			// odd k: a re-used (Reset) scanner over a fragmenting reader; Rest must still be
			// exactly the unconsumed bytes of *this* input
			var sc *shell.Scanner
			if k%2 == 1 && len(cuts) > 0 {
				sc = c16scanner(&fragReader{data: []byte(s), cuts: cuts[k%len(cuts)]}, k/2+1)
			} else {
				sc = c16scanner(strings.NewReader(s), k/2)
			}
			for j := 0; j < k; j++ {
				sc.Next()
			}
			b, _ := io.ReadAll(sc.Rest())
			rests = append(rests, []any{k, bytesJ(string(b))})
			if k > 40 {
				break
			}
		}
		ev["rests"] = rests
	})
	return ev
}

func replayC16(c *Ctx, h *Hist, ops []Op) {
	for _, op := range ops {
		var cuts [][]int
		for _, x := range getany(op, "cuts") {
			var cs []int
			for _, y := range x.([]any) {
				cs = append(cs, int(y.(float64)))
			}
			if cs == nil {
				cs = []int{}
			}
			cuts = append(cuts, cs)
		}
		h.Emit(c16rec(strOf(getis(op, "s")), nil, cuts))
	}
}

func runC16(c *Ctx) {
	for _, raw := range c.RawPaths {
		var in struct {
			S []int `json:"s"`
		}
		if json.Unmarshal(raw, &in) != nil {
			continue
		}
		c.NewHist("tlc-input").Emit(c16rec(strOf(in.S), nil, nil))
	}
	// every byte value in three contexts pins the byte classes
	for b := 0; b < 256; b++ {
		for _, s := range []string{string([]byte{byte(b)}), "x" + string([]byte{byte(b)}) + "y z", "\"" + string([]byte{byte(b)}) + " w\" v", "a\\" + string([]byte{byte(b)}) + "b"} {
			c.NewHist("byte-class").Emit(c16rec(s, nil, nil))
		}
	}
	alpha := []byte("ab  ''\"\"\\\\\t\n\nxyz$`*\r\v\f\xc2\x85\xc2\xa0\x00")
	n := c.Pick(2500, 100000)
	for i := 0; i < n; i++ {
		rng := c.Rng("c16", i)
		var sb strings.Builder
		for k := rng.Intn(40); k > 0; k-- {
			sb.WriteByte(alpha[rng.Intn(len(alpha))])
		}
		c.NewHist("random").Emit(c16rec(sb.String(), rng, nil))
	}
	// quoted runs longer than bufio's buffer
	for i := 0; i < c.Pick(4, 30); i++ {
		rng := c.Rng("c16-longquote", i)
		q := []string{"'", "\""}[i%2]
		var sb strings.Builder
		sb.WriteString("pre ")
		sb.WriteString(q)
		for n := 4000 + rng.Intn(3000); n > 0; n-- {
			sb.WriteByte("abc def\tg"[rng.Intn(9)])
		}
		sb.WriteString(q)
		sb.WriteString(" post 'x y'\n")
		c.NewHist("long-quoted").Emit(c16rec(sb.String(), rng, [][]int{}))
	}
	// long inputs: words straddling bufio's 4096-byte buffer
	for i := 0; i < c.Pick(6, 60); i++ {
		rng := c.Rng("c16-long", i)
		var sb strings.Builder
		for sb.Len() < 4000+rng.Intn(5000) {
			for k := 1 + rng.Intn(30); k > 0; k-- {
				sb.WriteByte("abcdefg"[rng.Intn(7)])
			}
			sb.WriteString([]string{" ", "  ", "\n", "\t", " '", "' ", "\\\n"}[rng.Intn(7)])
		}
		c.NewHist("long").Emit(c16rec(sb.String(), rng, [][]int{}))
	}
}
