package main

// C10: stack.Stack, mlink.Queue, mlink.List with cursors, ring.Ring.
// -kind selects the structure of this run:
//   stack, mqueue: events in the C07 (Deque) format, validated by DequeTrace
//     (stack: Push/Add = push at the front, Pop = pop; queue: Add at the back);
//   list: events {op, c, n, v, vs} -> st (0 ok, 1 "invalid cursor" panic,
//     2 other panic, 3 did not return), rv; observations each/len/empty/peeks
//     and, for each of the three cursors, [status, atEnd, value];
//   ring: events of/join/pop with, for every element, [id, next, prev, len,
//     each, [[n, At(n), Peek(n), ok]]].

import (
	"fmt"
	"math"
	"math/rand"
	"slices"
	"time"

	"github.com/creachadair/mds/mlink"
	"github.com/creachadair/mds/ring"
	"github.com/creachadair/mds/stack"
)

func init() { props["C10"] = &Prop{Run: runC10, Replay: replayC10} }

// ---- stack / mlink.Queue in Deque terms ------------------------------------

type seqLike interface {
	Len() int
	IsEmpty() bool
	Each(func(int) bool)
	Peek(int) (int, bool)
	Pop() (int, bool)
	Clear()
}

type c10seq struct {
	kind string
	s    *stack.Stack[int]
	q    *mlink.Queue[int]
}

func (x *c10seq) obj() seqLike {
	if x.kind == "stack" {
		return x.s
	}
	return x.q
}

func c10seqExec(c *Ctx, x *c10seq, op Op, rng *rand.Rand) Ev {
	name := gets(op, "op")
	v := geti(op, "v")
	ev := Ev{"op": name, "v": v, "rv": 0, "rok": true, "len": 0, "empty": true, "front": 0, "kind": x.kind,
		"slice": []int{}, "stop": 0, "each": []int{}, "peeks": [][3]int{}, "offs": []int{}, "head": -1, "rn": -1, "cap": -1, "full": 1}
	guard(ev, func() {
		switch name {
		case "new":
			if x.kind == "stack" {
				if v == -1 {
					x.s = new(stack.Stack[int])
				} else {
					x.s = stack.New[int]()
				}
			} else {
				if v == -1 {
					x.q = new(mlink.Queue[int]) // zero value must be usable
				} else {
					x.q = mlink.NewQueue[int]()
				}
			}
		case "push": // stack only: front = top
			if geti(op, "alt") == 1 {
				x.s.Add(v)
			} else {
				x.s.Push(v)
			}
			ev["alt"] = geti(op, "alt")
		case "add": // queue only
			x.q.Add(v)
		case "pop":
			rv, ok := x.obj().Pop()
			ev["rv"], ev["rok"] = rv, ok
		case "clear":
			x.obj().Clear()
		default:
			die("C10 %s: unknown op %q", x.kind, name)
		}
		o := x.obj()
		n := o.Len()
		if has(op, "full") && geti(op, "full") == 2 || !has(op, "full") && !has(op, "offs") && rng != nil && rng.Intn(4) == 0 {
			// sparse observation: at most one Peek, nothing else, before the next call
			ev["full"] = 2
			offs := []int{}
			if has(op, "offs") {
				offs = getis(op, "offs")
			} else if rng.Intn(2) == 0 {
				offs = []int{rng.Intn(n + 2)}
			}
			ev["offs"] = ints(offs)
			peeks := make([][3]int, 0, len(offs))
			for _, k := range offs {
				pv, ok := o.Peek(k)
				peeks = append(peeks, [3]int{k, pv, b2i(ok)})
			}
			ev["peeks"] = peeks
			return
		}
		ev["len"], ev["empty"] = n, o.IsEmpty()
		if x.kind == "stack" {
			ev["front"] = x.s.Top()
			ev["slice"] = ints(x.s.Slice())
		} else {
			ev["front"] = x.q.Front()
			all := []int{}
			x.q.Each(func(e int) bool { all = append(all, e); return true })
			ev["slice"] = all
		}
		stop := 0
		if has(op, "stop") {
			stop = geti(op, "stop")
		} else if rng != nil && rng.Intn(3) == 0 {
			stop = 1 + rng.Intn(n+2)
		}
		seen := []int{}
		o.Each(func(e int) bool { seen = append(seen, e); return stop == 0 || len(seen) < stop })
		ev["stop"], ev["each"] = stop, seen
		var offs []int
		if has(op, "offs") {
			offs = getis(op, "offs")
		} else {
			for k := 0; k <= n+1; k++ {
				offs = append(offs, k)
			}
			if rng != nil { // vary which offsets were looked at last before the next call, and in which order
				switch rng.Intn(4) {
				case 1:
					offs = []int{rng.Intn(n + 1)}
				case 2:
					slices.Reverse(offs)
				case 3:
					offs = []int{}
				}
			}
		}
		ev["offs"] = ints(offs)
		peeks := make([][3]int, 0, len(offs))
		for _, k := range offs {
			pv, ok := o.Peek(k)
			peeks = append(peeks, [3]int{k, pv, b2i(ok)})
		}
		ev["peeks"] = peeks
	})
	return ev
}

// ---- mlink.List with cursors -------------------------------------------------

type c10list struct {
	l     *mlink.List[int]
	cur   [4]*mlink.Cursor[int]
	hangs int
}

// call runs f with a watchdog; st: 0 ok, 1 "invalid cursor", 2 other panic, 3 hang.
func watchdog(f func() int) (st, rv int) {
	type res struct{ st, rv int }
	ch := make(chan res, 1)
	go func() {
		defer func() {
			if r := recover(); r != nil {
				if fmt.Sprint(r) == "invalid cursor" {
					ch <- res{1, 0}
				} else {
					ch <- res{2, 0}
				}
			}
		}()
		ch <- res{0, f()}
	}()
	select {
	case r := <-ch:
		return r.st, r.rv
	case <-time.After(2 * time.Second):
		return 3, 0
	}
}

func c10listExec(c *Ctx, x *c10list, op Op) Ev {
	name := gets(op, "op")
	ci, n, v := geti(op, "c"), geti(op, "n"), geti(op, "v")
	vs := getis(op, "vs")
	ev := Ev{"op": name, "c": ci, "n": n, "v": v, "vs": ints(vs), "st": 0, "rv": 0, "each": []int{}, "len": 0,
		"empty": true, "peeks": [][3]int{}, "curs": [][3]int{}, "kind": "list"}
	if name == "truncate" && c.Counters["hangs"] >= 3 {
		// hang budget used up (every hang leaves a spinning goroutine behind):
		// stop issuing the call that hung; the hangs already recorded decide.
		c.Counters["truncate-skipped-after-hangs"]++
		return nil
	}
	st, rv := watchdog(func() int {
		switch name {
		case "new":
			x.l = mlink.NewList[int]()
			x.cur = [4]*mlink.Cursor[int]{}
		case "at":
			x.cur[ci] = x.l.At(n)
		case "find":
			x.cur[ci] = x.l.Find(func(e int) bool { return e == v })
		case "last":
			x.cur[ci] = x.l.Last()
		case "end":
			x.cur[ci] = x.l.End()
		case "next":
			return b2i(x.cur[ci].Next())
		case "get":
			return x.cur[ci].Get()
		case "push":
			x.cur[ci].Push(v)
		case "set":
			x.cur[ci].Set(v)
		case "add":
			x.cur[ci].Add(vs...)
		case "remove":
			return x.cur[ci].Remove()
		case "truncate":
			x.cur[ci].Truncate()
		case "clear":
			x.l.Clear()
		default:
			die("C10 list: unknown op %q", name)
		}
		return 0
	})
	ev["st"], ev["rv"] = st, rv
	if st == 3 {
		c.Counters["hangs"]++
		x.hangs++
		return ev // the list is being mutated by the runaway call: no observations
	}
	ost, _ := watchdog(func() int {
		all := []int{}
		x.l.Each(func(e int) bool { all = append(all, e); return true })
		ev["each"] = all
		ev["len"], ev["empty"] = x.l.Len(), x.l.IsEmpty()
		peeks := [][3]int{}
		for k := 0; k <= len(all)+1; k++ {
			pv, ok := x.l.Peek(k)
			peeks = append(peeks, [3]int{k, pv, b2i(ok)})
		}
		ev["peeks"] = peeks
		return 0
	})
	if ost != 0 {
		ev["st"] = 10 + ost // observing the list itself failed
	}
	curs := [][3]int{}
	for k := 1; k <= 3; k++ {
		if x.cur[k] == nil {
			curs = append(curs, [3]int{9, 0, 0})
			continue
		}
		cu := x.cur[k]
		at := 0
		pst, val := watchdog(func() int { at = b2i(cu.AtEnd()); return cu.Get() })
		if pst != 0 {
			at, val = 0, 0
		}
		curs = append(curs, [3]int{pst, at, val})
	}
	ev["curs"] = curs
	return ev
}

// ---- ring ------------------------------------------------------------------

type c10ring struct {
	el map[int]*ring.Ring[int]
}

func (x *c10ring) idOf(r *ring.Ring[int]) int {
	if r == nil {
		return 0
	}
	return r.Value
}

func c10ringExec(c *Ctx, x *c10ring, op Op) Ev {
	name := gets(op, "op")
	r, s := geti(op, "r"), geti(op, "s")
	vs := getis(op, "vs")
	ev := Ev{"op": name, "r": r, "s": s, "vs": ints(vs), "ret": 0, "elems": []any{}, "kind": "ring"}
	guard(ev, func() {
		switch name {
		case "new":
			x.el = map[int]*ring.Ring[int]{}
		case "of":
			var head *ring.Ring[int]
			if geti(op, "alt") == 1 && len(vs) > 0 { // New(n) then fill in the values
				head = ring.New[int](len(vs))
				cur := head
				for _, v := range vs {
					cur.Value = v
					cur = cur.Next()
				}
			} else {
				head = ring.Of(vs...)
			}
			ev["alt"] = geti(op, "alt")
			cur := head
			for range vs {
				x.el[cur.Value] = cur
				cur = cur.Next()
			}
		case "join":
			ev["ret"] = x.idOf(x.el[r].Join(x.el[s]))
		case "pop":
			ev["ret"] = x.idOf(x.el[r].Pop())
		default:
			die("C10 ring: unknown op %q", name)
		}
		ids := make([]int, 0, len(x.el))
		for id := range x.el {
			ids = append(ids, id)
		}
		elems := []any{}
		for _, id := range ids {
			e := x.el[id]
			n := e.Len()
			each := []int{}
			cnt := 0
			e.Each(func(v int) bool { each = append(each, v); cnt++; return cnt < 64 })
			ats := [][4]int{}
			for k := -n - 1; k <= n+1; k++ {
				pv, ok := e.Peek(k)
				ats = append(ats, [4]int{k, x.idOf(e.At(k)), pv, b2i(ok)})
			}
			// offsets of extreme magnitude (logged clamped to what TLC can hold)
			for _, k := range []int{1 << 32, -(1 << 32), 1<<32 + 1, -(1<<32 + 1), 1<<32 + n, math.MaxInt, math.MinInt, math.MinInt + 1, 1 << 31, -(1 << 31), 1 << 16, 1<<16 + 1} {
				pv, ok := e.Peek(k)
				ats = append(ats, [4]int{clampK(k), x.idOf(e.At(k)), pv, b2i(ok)})
			}
			elems = append(elems, []any{id, x.idOf(e.Next()), x.idOf(e.Prev()), n, each, ats})
		}
		ev["elems"] = elems
	})
	return ev
}

// ---- dispatch ------------------------------------------------------------------

func c10kind(c *Ctx) string {
	k, _ := c.Extra["kind"].(string)
	if k == "" {
		k = "list"
	}
	return k
}

func replayC10(c *Ctx, h *Hist, ops []Op) {
	if len(ops) == 0 {
		return
	}
	kind := gets(ops[0], "kind")
	if kind == "" {
		kind = c10kind(c)
	}
	c10replay(c, h, kind, ops)
}

func c10replay(c *Ctx, h *Hist, kind string, ops []Op) {
	switch kind {
	case "stack", "mqueue":
		x := &c10seq{kind: kind}
		for _, op := range ops {
			h.Emit(c10seqExec(c, x, op, nil))
		}
	case "list":
		x := &c10list{}
		for _, op := range ops {
			ev := c10listExec(c, x, op)
			if ev == nil {
				return
			}
			h.Emit(ev)
			if ev["st"] == 3 {
				return
			}
		}
	case "ring":
		x := &c10ring{}
		for _, op := range ops {
			h.Emit(c10ringExec(c, x, op))
		}
	}
}

func runC10(c *Ctx) {
	kind := c10kind(c)
	for _, p := range c.Paths {
		if len(p) == 0 {
			continue
		}
		isRing := has(p[0], "r")
		if (kind == "ring") == isRing && (kind == "ring" || kind == "list") {
			c10replay(c, c.NewHist("tlc-path"), kind, p)
		}
	}
	if kind == "stack" || kind == "mqueue" {
		// grow past a thousand elements, drain to a few, look at the bottom
		for i := 0; i < c.Pick(2, 12); i++ {
			rng := c.Rng("c10-big-"+kind, i)
			h := c.NewHist(kind + "-big")
			x := &c10seq{kind: kind}
			do := func(op Op) { h.Emit(c10seqExec(c, x, op, rng)) }
			do(Op{"op": "new", "v": 0})
			n := 900 + rng.Intn(c.Pick(700, 4000))
			for j := 1; j <= n; j++ {
				name := "add"
				if kind == "stack" {
					name = "push"
				}
				do(Op{"op": name, "v": j, "offs": []int{0, j - 1, j}, "stop": 1})
			}
			keep := 1 + rng.Intn(40)
			for g := 0; x.obj().Len() > keep && g < n+8; g++ {
				do(Op{"op": "pop", "offs": []int{0, x.obj().Len() - 2, x.obj().Len() - 1}, "stop": 1})
			}
			do(Op{"op": "pop"})
			for g := 0; x.obj().Len() > 0 && g < 64; g++ {
				do(Op{"op": "pop"})
			}
			do(Op{"op": "pop"})
		}
	}
	nh := c.Pick(200, 5000)
	hangs := 0
	_ = hangs
	for i := 0; i < nh; i++ {
		c.genGuard(func() {
			rng := c.Rng("c10-"+kind, i)
			h := c.NewHist(kind + "-random")
			switch kind {
			case "stack", "mqueue":
				x := &c10seq{kind: kind}
				do := func(op Op) { h.Emit(c10seqExec(c, x, op, rng)) }
				do(Op{"op": "new", "v": []int{0, -1}[rng.Intn(2)]})
				next := 1
				for j := 20 + rng.Intn(60); j > 0; j-- {
					r := rng.Intn(100)
					switch {
					case r < 50:
						if kind == "stack" {
							do(Op{"op": "push", "v": next, "alt": rng.Intn(2)})
						} else {
							do(Op{"op": "add", "v": next})
						}
						next++
					case r < 95:
						do(Op{"op": "pop"})
					default:
						do(Op{"op": "clear"})
					}
				}
			case "list":
				x := &c10list{}
				do := func(op Op) bool {
					ev := c10listExec(c, x, op)
					if ev == nil {
						return false
					}
					h.Emit(ev)
					return ev["st"] != 3
				}
				do(Op{"op": "new"})
				val := 0
				for j := 20 + rng.Intn(50); j > 0; j-- {
					ci := 1 + rng.Intn(3)
					r := rng.Intn(100)
					n := x.l.Len()
					val++
					var op Op
					if x.cur[ci] == nil || r < 22 {
						switch rng.Intn(5) {
						case 0:
							op = Op{"op": "at", "c": ci, "n": rng.Intn(n + 2)}
						case 1:
							op = Op{"op": "find", "c": ci, "v": 1 + rng.Intn(val)}
						case 2:
							op = Op{"op": "last", "c": ci}
						case 3:
							op = Op{"op": "end", "c": ci}
						default:
							op = Op{"op": "at", "c": ci, "n": 0}
						}
					} else {
						switch {
						case r < 35:
							op = Op{"op": "next", "c": ci}
						case r < 42:
							op = Op{"op": "get", "c": ci}
						case r < 55:
							op = Op{"op": "push", "c": ci, "v": val}
						case r < 62:
							op = Op{"op": "set", "c": ci, "v": val}
						case r < 72:
							op = Op{"op": "add", "c": ci, "vs": []int{val, val + 1000}[:1+rng.Intn(2)]}
						case r < 88:
							op = Op{"op": "remove", "c": ci}
						case r < 96:
							op = Op{"op": "truncate", "c": ci}
						default:
							op = Op{"op": "clear"}
						}
					}
					if !do(op) {
						hangs++
						return
					}
				}
			case "ring":
				x := &c10ring{}
				do := func(op Op) { h.Emit(c10ringExec(c, x, op)) }
				do(Op{"op": "new"})
				next := 1
				for j := 6 + rng.Intn(14); j > 0; j-- {
					r := rng.Intn(100)
					if len(x.el) < 2 || (r < 25 && len(x.el) < 10) {
						n := 1 + rng.Intn(4)
						vs := make([]int, n)
						for k := range vs {
							vs[k] = next
							next++
						}
						do(Op{"op": "of", "vs": vs, "alt": rng.Intn(2)})
						continue
					}
					ids := make([]int, 0, len(x.el))
					for id := range x.el {
						ids = append(ids, id)
					}
					// deterministic order for the seeded choice
					for a := 1; a < len(ids); a++ {
						for b := a; b > 0 && ids[b] < ids[b-1]; b-- {
							ids[b], ids[b-1] = ids[b-1], ids[b]
						}
					}
					a, b := ids[rng.Intn(len(ids))], ids[rng.Intn(len(ids))]
					if r < 80 {
						do(Op{"op": "join", "r": a, "s": b})
					} else {
						do(Op{"op": "pop", "r": a})
					}
				}
			}
		})
	}
}
