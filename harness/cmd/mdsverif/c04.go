package main

// C04: omap.Map.  One history uses one map (natural or reversed comparator),
// a copy of the Map value (which shares the contents; ops with w=1 go through
// the copy), and a zero Map (ops with z=1).  Events: new {rev}; set {k,v};
// delete {k}; clear; look (no call, observations only); first|last {i};
// seek {i,k} (Map.Seek); itseek {i,k} (Iter.Seek on the existing iterator);
// next|prev {i}.  After every event: len, keys, str (String()), gets =
// [[k, value, ok, Get(k)]], it = [valid, key, value] of iterator i.

import (
	"cmp"
	"math"
	"math/rand"

	"github.com/creachadair/mds/omap"
)

func init() { props["C04"] = &Prop{Run: runC04, Replay: replayC04} }

type c04state struct {
	m, cp, zero omap.Map[int, int]
	its         [3]*omap.Iter[int, int]
	zits        [3]*omap.Iter[int, int]
	stale       [3]bool // driver-side bookkeeping: do not step a stale iterator
	rev         bool
}

func c04exec(c *Ctx, st *c04state, op Op, rng *rand.Rand) Ev {
	name := gets(op, "op")
	i, k, v := 0, geti(op, "k"), geti(op, "v")
	if has(op, "i") {
		i = geti(op, "i")
	} else if _, isnum := op["it"].(float64); isnum { // TLC paths name the iterator "it"
		i = geti(op, "it")
	}
	z, w := geti(op, "z"), geti(op, "w")
	ev := Ev{"op": name, "i": i, "k": k, "v": v, "z": z, "w": w, "rev": st.rev, "res": true, "len": 0,
		"keys": []int{}, "str": "", "gets": [][4]int{}, "it": [3]int{0, 0, 0}, "ck": 0, "lo": geti(op, "lo"), "hi": geti(op, "hi"), "lite": 0}
	guard(ev, func() {
		if name == "new" {
			st.rev = getb(op, "rev")
			ev["rev"] = st.rev
			ck := geti(op, "ck")
			ev["ck"] = ck
			sign := 1
			if st.rev {
				sign = -1
			}
			switch ck { // any magnitude is a legal comparator result
			case 1:
				st.m = omap.NewFunc[int, int](func(a, b int) int { return sign * 3 * (a - b) })
			case 2:
				st.m = omap.NewFunc[int, int](func(a, b int) int { return sign * ((a - b) << 32) })
			case 3:
				st.m = omap.NewFunc[int, int](func(a, b int) int { return sign * ((a - b) << 31) })
			case 4:
				st.m = omap.NewFunc[int, int](func(a, b int) int {
					switch c := sign * cmp.Compare(a, b); {
					case c < 0:
						return math.MinInt
					case c > 0:
						return math.MaxInt
					}
					return 0
				})
			default:
				if st.rev {
					st.m = omap.NewFunc[int, int](func(a, b int) int { return cmp.Compare(b, a) })
				} else {
					st.m = omap.New[int, int]()
				}
			}
			st.cp = st.m // a copy of the Map value shares storage
			st.zero = omap.Map[int, int]{}
			st.its, st.zits, st.stale = [3]*omap.Iter[int, int]{}, [3]*omap.Iter[int, int]{}, [3]bool{}
		}
		mp := st.m
		if w == 1 {
			mp = st.cp
		}
		its := &st.its
		if z == 1 {
			mp = st.zero
			its = &st.zits
		}
		switch name {
		case "new", "look":
		case "set":
			ev["res"] = mp.Set(k, v)
			st.stale = [3]bool{true, true, true}
		case "bulkset": // Set(x, x) for x = lo .. hi-1 ascending; res = every key was new
			all := true
			for x := geti(op, "lo"); x < geti(op, "hi"); x++ {
				if !mp.Set(x, x) {
					all = false
				}
			}
			ev["res"] = all
			st.stale = [3]bool{true, true, true}
		case "bulkdel": // Delete(x) for x = lo .. hi-1; res = every key was present
			all := true
			for x := geti(op, "lo"); x < geti(op, "hi"); x++ {
				if !mp.Delete(x) {
					all = false
				}
			}
			ev["res"] = all
			st.stale = [3]bool{true, true, true}
		case "delete":
			r := mp.Delete(k)
			ev["res"] = r
			if r {
				st.stale = [3]bool{true, true, true}
			}
		case "clear":
			mp.Clear()
			if z == 0 {
				st.stale = [3]bool{true, true, true}
			}
		case "first":
			its[i] = mp.First()
		case "last":
			its[i] = mp.Last()
		case "seek":
			its[i] = mp.Seek(k)
		case "itseek":
			if its[i] == nil {
				its[i] = mp.First()
			}
			its[i].Seek(k)
		case "next":
			if its[i] == nil {
				its[i] = mp.Seek(1 << 30).Next() // an invalid iterator
			}
			its[i].Next()
		case "prev":
			if its[i] == nil {
				its[i] = mp.Seek(1 << 30).Next()
			}
			its[i].Prev()
		default:
			die("C04: unknown op %q", name)
		}
		if z == 0 && (name == "first" || name == "last" || name == "seek" || name == "itseek") {
			st.stale[i] = false
		}
		if i >= 1 && i <= 2 && its[i] != nil && (z == 1 || !st.stale[i]) {
			it := its[i]
			ev["it"] = [3]int{b2i(it.IsValid()), it.Key(), it.Value()}
		}
		if geti(op, "lite") == 2 || !has(op, "lite") && !has(op, "gets") && rng != nil && z == 0 && rng.Intn(6) == 0 {
			// blind call: no observer (at most one lookup) before the next call
			ev["lite"] = 2
			gl := [][4]int{}
			var gk []int
			if has(op, "gets") {
				for _, g := range getany(op, "gets") {
					gk = append(gk, int(g.([]any)[0].(float64)))
				}
			} else if rng.Intn(2) == 0 {
				gk = []int{rng.Intn(12)}
			}
			for _, x := range gk {
				val, ok := mp.GetOK(x)
				gl = append(gl, [4]int{x, val, b2i(ok), mp.Get(x)})
			}
			ev["gets"] = gl
			return
		}
		ev["len"] = mp.Len()
		if mp.Len() > 400 { // very large maps: Len, lookups and iterators only
			ev["lite"] = 1
			ev["keys"] = []int{len(mp.Keys())}
		} else {
			ev["keys"] = ints(mp.Keys())
			ev["str"] = mp.String()
		}
		var gk []int
		if has(op, "gets") {
			for _, g := range getany(op, "gets") {
				gk = append(gk, int(g.([]any)[0].(float64)))
			}
		} else {
			gk = []int{k, k + 1, k - 1, 0}
			if rng != nil {
				gk = append(gk, rng.Intn(12))
				// vary what was looked up last before the next call: nothing at all, or one present key
				switch rng.Intn(4) {
				case 0:
					gk = []int{}
				case 1:
					if ks := mp.Keys(); len(ks) > 0 && len(ks) < 400 {
						gk = []int{ks[rng.Intn(len(ks))]}
					}
				}
			}
		}
		gl := make([][4]int, 0, len(gk))
		for _, x := range gk {
			val, ok := mp.GetOK(x)
			gl = append(gl, [4]int{x, val, b2i(ok), mp.Get(x)})
		}
		ev["gets"] = gl
	})
	return ev
}

func replayC04(c *Ctx, h *Hist, ops []Op) {
	st := &c04state{}
	for _, op := range ops {
		h.Emit(c04exec(c, st, op, nil))
	}
}

func runC04(c *Ctx) {
	wantRev := c.Extra["rev"] == true
	for _, p := range c.Paths {
		if len(p) > 0 && getb(p[0], "rev") == wantRev {
			replayC04(c, c.NewHist("tlc-path"), p)
			p[0]["ck"] = 1 + len(c.Paths[0])%4
			p[0]["ck"] = []int{1, 2, 3, 4}[c.nextH%4]
			replayC04(c, c.NewHist("tlc-path-diffcmp"), p)
		}
	}
	// tens of thousands of entries: rebuilds of subtrees beyond 2^16 nodes
	if !wantRev {
		for i := 0; i < c.Pick(1, 3); i++ {
			rng := c.Rng("c04-bulk", i)
			h := c.NewHist("bulk")
			st := &c04state{}
			do := func(op Op) { h.Emit(c04exec(c, st, op, rng)) }
			do(Op{"op": "new", "rev": false, "ck": []int{0, 1, 2}[i%3]})
			n := 76000 + rng.Intn(30000)
			do(Op{"op": "bulkset", "lo": 0, "hi": n})
			do(Op{"op": "first", "i": 1})
			do(Op{"op": "next", "i": 1})
			do(Op{"op": "seek", "i": 2, "k": n - 3})
			do(Op{"op": "next", "i": 2})
			do(Op{"op": "bulkdel", "lo": 100, "hi": n - 100}) // shrinks below the rebuild threshold on the way
			do(Op{"op": "last", "i": 1})
			do(Op{"op": "prev", "i": 1})
			do(Op{"op": "seek", "i": 2, "k": 150})
		}
	}
	nh := c.Pick(300, 8000)
	for i := 0; i < nh; i++ {
		c.genGuard(func() {
			rng := c.Rng("c04", i)
			kind := []string{"uniform", "iter-edit", "sweep", "zero", "fill-drain"}[i%5]
			h := c.NewHist(kind)
			st := &c04state{}
			do := func(op Op) { h.Emit(c04exec(c, st, op, rng)) }
			do(Op{"op": "new", "rev": wantRev, "ck": rng.Intn(5)})
			nk := []int{4, 8, 16, 40}[rng.Intn(4)]
			if kind == "fill-drain" {
				// grow well beyond 20 entries, then delete to a small remainder: the
				// shrink-triggered whole-tree rebuild of the underlying tree
				n := 24 + rng.Intn(60)
				asc := rng.Intn(2) == 0
				for j := 0; j < n; j++ {
					k := rng.Intn(200)
					if asc {
						k = j
					}
					do(Op{"op": "set", "k": k, "v": j})
				}
				for g := 0; st.m.Len() > 0 && g < 3*n+8; g++ {
					ks := st.m.Keys()
					if len(ks) == 0 {
						break
					}
					k := ks[0]
					switch rng.Intn(3) {
					case 1:
						k = ks[len(ks)-1]
					case 2:
						k = ks[rng.Intn(len(ks))]
					}
					do(Op{"op": "delete", "k": k})
					if rng.Intn(6) == 0 {
						do(Op{"op": "first", "i": 1})
						do(Op{"op": "next", "i": 1})
						do(Op{"op": "seek", "i": 2, "k": k})
					}
				}
				return
			}
			nops := 30 + rng.Intn(c.Pick(60, 150))
			val := 0
			for j := 0; j < nops; j++ {
				r := rng.Intn(100)
				w := rng.Intn(2)
				it := 1 + rng.Intn(2)
				val++
				switch kind {
				case "zero":
					if r < 50 {
						ops := []string{"delete", "clear", "first", "last", "seek", "itseek", "next", "prev", "look"}
						do(Op{"op": ops[rng.Intn(len(ops))], "i": it, "k": rng.Intn(nk), "z": 1})
						continue
					}
					fallthrough
				case "uniform":
					if ks := st.m.Keys(); r >= 96 && len(ks) >= 3 {
						// the key looked up last, then a different key deleted with no lookup in
						// between, then the first key set anew and looked up: must show the new value
						a := ks[rng.Intn(len(ks))]
						b := ks[rng.Intn(len(ks))]
						do(Op{"op": "look", "gets": []any{[]any{float64(a)}}})
						do(Op{"op": "delete", "k": b, "gets": []any{}})
						do(Op{"op": "set", "k": a, "v": val + 1000, "gets": []any{[]any{float64(a)}}})
						continue
					}
					switch {
					case r < 35:
						do(Op{"op": "set", "k": rng.Intn(nk), "v": val, "w": w})
					case r < 55:
						do(Op{"op": "delete", "k": rng.Intn(nk), "w": w})
					case r < 57:
						do(Op{"op": "clear", "w": w})
					case r < 65:
						do(Op{"op": []string{"first", "last"}[rng.Intn(2)], "i": it, "w": w})
					case r < 80:
						do(Op{"op": []string{"seek", "itseek"}[rng.Intn(2)], "i": it, "k": rng.Intn(nk+2) - 1, "w": w})
					default:
						if st.stale[it] {
							do(Op{"op": "itseek", "i": it, "k": rng.Intn(nk+2) - 1, "w": w})
						} else {
							do(Op{"op": []string{"next", "prev"}[rng.Intn(2)], "i": it})
						}
					}
				case "iter-edit":
					// the documented pattern: delete while iterating, then re-seek
					if st.m.Len() < 6 || r < 25 {
						do(Op{"op": "set", "k": rng.Intn(nk), "v": val, "w": w})
					} else if st.stale[it] || st.its[it] == nil || !st.its[it].IsValid() {
						do(Op{"op": []string{"first", "itseek", "last"}[rng.Intn(3)], "i": it, "k": rng.Intn(nk)})
					} else if r < 60 {
						key := st.its[it].Key()
						do(Op{"op": "delete", "k": key, "w": w})
						do(Op{"op": "itseek", "i": it, "k": key})
						if rng.Intn(2) == 0 && !st.stale[it] {
							do(Op{"op": "prev", "i": it})
						}
					} else {
						do(Op{"op": []string{"next", "prev"}[rng.Intn(2)], "i": it})
					}
				case "sweep":
					// fill, then walk the whole map forwards and backwards
					if j < nops/3 {
						do(Op{"op": "set", "k": rng.Intn(nk), "v": val, "w": w})
					} else if st.stale[it] || st.its[it] == nil || !st.its[it].IsValid() {
						do(Op{"op": []string{"first", "last", "seek"}[rng.Intn(3)], "i": it, "k": rng.Intn(nk+2) - 1})
					} else if it == 1 {
						do(Op{"op": "next", "i": it})
					} else {
						do(Op{"op": "prev", "i": it})
					}
				}
			}
		})
	}
}
