package main

// C11 / C12: slice.EditScript, LCS, LIS, LNDS.  One record per call; every
// record is its own history (op "new").  Inputs come from the TLC-enumerated
// space (lines {lhs, rhs} and {vs}) plus seeded longer inputs.

import (
	"cmp"
	"encoding/json"
	"math"
	"math/rand"
	"slices"

	"github.com/creachadair/mds/slice"
)

func init() {
	props["C11"] = &Prop{Run: runC11, Replay: replayC11}
	props["C12"] = &Prop{Run: runC12, Replay: replayC12}
}

// views returns the two inputs as views of ONE backing array when alias is set
// (alias = [lo1, hi1, lo2, hi2] into buf), else as independent copies.
// A session is a history of several calls whose arguments live in the same two
// backing arrays, rewritten in place between the calls (as a caller that reuses
// its buffers does): a result that depends on the identity of an argument rather
// than on its contents, or on what an earlier call left behind, shows up there.
type sessArena struct{ a, b [320]int }

var curSess *sessArena

func views(buf, lhs, rhs, alias []int) ([]int, []int) {
	if len(alias) == 4 {
		b := slices.Clone(buf)
		return b[alias[0]:alias[1]], b[alias[2]:alias[3]]
	}
	if curSess != nil && len(lhs) <= len(curSess.a) && len(rhs) <= len(curSess.b) {
		copy(curSess.a[:], lhs)
		copy(curSess.b[:], rhs)
		return curSess.a[:len(lhs)], curSess.b[:len(rhs)]
	}
	return slices.Clone(lhs), slices.Clone(rhs)
}

func sessFlag() int {
	if curSess != nil {
		return 1
	}
	return 0
}

// scrambleEdit makes a few unrelated calls (scripts of 1, 2, 4 and 8 edits) while the
// caller still holds an earlier result: that result must not be backed by reused storage.
func scrambleEdit() {
	for _, n := range []int{1, 2, 4, 8} {
		var a, b []int
		for i := 0; i < n; i++ {
			if i%2 == 0 {
				a = append(a, 500+i, 900+i)
				b = append(b, 500+i, 700+i)
			} else {
				a = append(a, 500+i)
				b = append(b, 500+i)
			}
		}
		_ = slice.EditScript(a, b)
		_ = slice.LCS(a, b)
	}
}

func c11rec(lhs, rhs []int) Ev { return c11recA(nil, lhs, rhs, nil) }

func c11recA(buf, lhs, rhs, alias []int) Ev {
	if len(alias) == 4 {
		lhs, rhs = buf[alias[0]:alias[1]], buf[alias[2]:alias[3]]
	}
	ev := Ev{"op": "new", "lhs": ints(slices.Clone(lhs)), "rhs": ints(slices.Clone(rhs)), "script": []any{}, "lhs2": []int{}, "rhs2": []int{},
		"buf": ints(buf), "alias": ints(alias), "z": 0, "sess": sessFlag()}
	guard(ev, func() {
		l2, r2 := views(buf, lhs, rhs, alias)
		es := slice.EditScript(l2, r2)
		if curSess == nil {
			scrambleEdit() // es is held across further calls (in a session the next call follows directly)
		}
		script := make([]any, 0, len(es))
		for _, e := range es {
			script = append(script, []any{string(rune(e.Op)), ints(e.X), ints(e.Y)})
		}
		ev["script"] = script
		ev["lhs2"], ev["rhs2"] = ints(l2), ints(r2)
	})
	return ev
}

// c11recZ: the same call over float64 elements, where code 1000 stands for -0 and
// 0 for +0: equal under == but different values, so "X is the very span of lhs"
// is observable in the contents (an Emit must carry lhs's zero, not rhs's).
const negZero = 1000

func c11recZ(lhs, rhs []int) Ev {
	ev := Ev{"op": "new", "lhs": ints(slices.Clone(lhs)), "rhs": ints(slices.Clone(rhs)), "script": []any{}, "lhs2": []int{}, "rhs2": []int{},
		"buf": []int{}, "alias": []int{}, "z": 1}
	toF := func(q []int) []float64 {
		out := make([]float64, len(q))
		for i, x := range q {
			if x == negZero {
				out[i] = math.Copysign(0, -1)
			} else {
				out[i] = float64(x)
			}
		}
		return out
	}
	toI := func(q []float64) []int {
		out := make([]int, len(q))
		for i, x := range q {
			if x == 0 && math.Signbit(x) {
				out[i] = negZero
			} else {
				out[i] = int(x)
			}
		}
		return out
	}
	guard(ev, func() {
		l2, r2 := toF(lhs), toF(rhs)
		es := slice.EditScript(l2, r2)
		script := make([]any, 0, len(es))
		for _, e := range es {
			script = append(script, []any{string(rune(e.Op)), ints(toI(e.X)), ints(toI(e.Y))})
		}
		ev["script"] = script
		ev["lhs2"], ev["rhs2"] = ints(toI(l2)), ints(toI(r2))
	})
	return ev
}

func replayC11(c *Ctx, h *Hist, ops []Op) {
	curSess = nil
	if len(ops) > 0 && geti(ops[0], "sess") == 1 {
		curSess = &sessArena{}
		defer func() { curSess = nil }()
	}
	for _, op := range ops {
		if geti(op, "z") == 1 {
			h.Emit(c11recZ(getis(op, "lhs"), getis(op, "rhs")))
			continue
		}
		h.Emit(c11recA(getis(op, "buf"), getis(op, "lhs"), getis(op, "rhs"), getis(op, "alias")))
	}
}

// aliasCases: both arguments are windows of one buffer (prefixes of different
// length, overlapping and disjoint windows, the same window twice)
func aliasCases(rng *rand.Rand) (buf []int, alias []int) {
	n := 1 + rng.Intn(14)
	buf = make([]int, n)
	for i := range buf {
		buf[i] = 1 + rng.Intn(3)
	}
	a, b := rng.Intn(n+1), rng.Intn(n+1)
	switch rng.Intn(5) {
	case 0:
		return buf, []int{0, n, 0, a} // whole vs shorter prefix
	case 1:
		return buf, []int{0, a, 0, n} // prefix vs whole
	case 2:
		return buf, []int{0, a, 0, b} // two prefixes
	case 3:
		if a > b {
			a, b = b, a
		}
		return buf, []int{a, b, a, n} // same start inside the buffer
	}
	lo1, lo2 := rng.Intn(n+1), rng.Intn(n+1)
	return buf, []int{lo1, lo1 + rng.Intn(n-lo1+1), lo2, lo2 + rng.Intn(n-lo2+1)}
}

type pairIn struct {
	Lhs []int `json:"lhs"`
	Rhs []int `json:"rhs"`
	Vs  []int `json:"vs"`
	isV bool
}

func parseInputs(c *Ctx) (pairs [][2][]int, seqs [][]int) {
	for _, raw := range c.RawPaths {
		var m map[string]json.RawMessage
		if json.Unmarshal(raw, &m) != nil {
			continue
		}
		if v, ok := m["vs"]; ok {
			var s []int
			json.Unmarshal(v, &s)
			seqs = append(seqs, s)
		} else if _, ok := m["lhs"]; ok {
			var a, b []int
			json.Unmarshal(m["lhs"], &a)
			json.Unmarshal(m["rhs"], &b)
			pairs = append(pairs, [2][]int{a, b})
		}
	}
	return
}

// related pair: rhs derived from lhs by a few edits (long common runs)
func relatedPair(rng *rand.Rand, maxLen, alpha int) ([]int, []int) {
	n := rng.Intn(maxLen + 1)
	lhs := make([]int, n)
	for i := range lhs {
		lhs[i] = 1 + rng.Intn(alpha)
	}
	rhs := slices.Clone(lhs)
	for k := rng.Intn(6); k > 0; k-- {
		switch rng.Intn(3) {
		case 0: // delete a run
			if len(rhs) > 0 {
				i := rng.Intn(len(rhs))
				j := min(len(rhs), i+1+rng.Intn(4))
				rhs = append(rhs[:i:i], rhs[j:]...)
			}
		case 1: // insert a run
			i := rng.Intn(len(rhs) + 1)
			var ins []int
			for m := 1 + rng.Intn(4); m > 0; m-- {
				ins = append(ins, 1+rng.Intn(alpha))
			}
			rhs = append(rhs[:i:i], append(ins, rhs[i:]...)...)
		default: // change one
			if len(rhs) > 0 {
				rhs[rng.Intn(len(rhs))] = 1 + rng.Intn(alpha)
			}
		}
	}
	if rng.Intn(2) == 0 {
		return rhs, lhs
	}
	return lhs, rhs
}

func runC11(c *Ctx) {
	pairs, _ := parseInputs(c)
	for _, p := range pairs {
		c.NewHist("tlc-input").Emit(c11rec(p[0], p[1]))
	}
	for i := 0; i < c.Pick(1500, 30000); i++ {
		rng := c.Rng("c11-alias", i)
		buf, alias := aliasCases(rng)
		c.NewHist("aliased-views").Emit(c11recA(buf, nil, nil, alias))
	}
	// +0 / -0: every pair over {+0, -0, 1} up to length 3 + random longer ones
	zal := []int{0, negZero, 1}
	var zs [][]int
	var gen func(q []int, n int)
	gen = func(q []int, n int) {
		zs = append(zs, slices.Clone(q))
		if n == 0 {
			return
		}
		for _, x := range zal {
			gen(append(q, x), n-1)
		}
	}
	gen(nil, 3)
	for _, a := range zs {
		for _, b := range zs {
			c.NewHist("signed-zero").Emit(c11recZ(a, b))
		}
	}
	for i := 0; i < c.Pick(600, 20000); i++ {
		rng := c.Rng("c11-z", i)
		a, b := relatedPair(rng, 16, 3)
		for _, q := range [][]int{a, b} {
			for j := range q {
				switch q[j] % 3 {
				case 0:
					q[j] = []int{0, negZero}[rng.Intn(2)]
				default:
					q[j] = q[j] % 3
				}
			}
		}
		c.NewHist("signed-zero").Emit(c11recZ(a, b))
	}
	// sessions: arguments rewritten in place between calls, the same call repeated
	for i := 0; i < c.Pick(400, 8000); i++ {
		rng := c.Rng("c11-sess", i)
		h := c.NewHist("session")
		curSess = &sessArena{}
		a, b := relatedPair(rng, 10, 3)
		for step := 0; step < 5; step++ {
			h.Emit(c11rec(a, b))
			switch rng.Intn(4) {
			case 0: // the same call again
			case 1: // one element of lhs changes to a value that the new rhs contains
				if len(a) > 0 {
					v := 4 + rng.Intn(4)
					a = slices.Clone(a)
					a[rng.Intn(len(a))] = v
					b = []int{v, 8 + rng.Intn(2)}
				}
			case 2: // a new rhs, lhs untouched
				_, b = relatedPair(rng, 10, 3)
			default: // both change, same lengths
				a, b = slices.Clone(a), slices.Clone(b)
				for j := range a {
					if rng.Intn(3) == 0 {
						a[j] = 1 + rng.Intn(4)
					}
				}
				for j := range b {
					if rng.Intn(3) == 0 {
						b[j] = 1 + rng.Intn(4)
					}
				}
			}
		}
		curSess = nil
	}
	n := c.Pick(3000, 120000)
	for i := 0; i < n; i++ {
		rng := c.Rng("c11", i)
		var a, b []int
		switch i % 3 {
		case 0:
			a, b = relatedPair(rng, 40, 2+rng.Intn(4))
		case 1: // periodic / repetitive
			a, b = relatedPair(rng, 24, 2)
		default: // unrelated
			a = make([]int, rng.Intn(20))
			b = make([]int, rng.Intn(20))
			for j := range a {
				a[j] = 1 + rng.Intn(3)
			}
			for j := range b {
				b[j] = 1 + rng.Intn(3)
			}
		}
		c.NewHist("random").Emit(c11rec(a, b))
	}
}

// ---- C12 -----------------------------------------------------------------------

func c12lcs(a, b []int) Ev { return c12lcsA(nil, a, b, nil) }

func c12lcsA(buf, a, b, alias []int) Ev {
	if len(alias) == 4 {
		a, b = buf[alias[0]:alias[1]], buf[alias[2]:alias[3]]
	}
	ev := Ev{"op": "new", "kind": "lcs", "a": ints(slices.Clone(a)), "b": ints(slices.Clone(b)), "buf": ints(buf), "alias": ints(alias), "mag": 0, "out": []int{}, "outf": []int{}, "a2": []int{}, "b2": []int{},
		"vs": []int{}, "rev": false, "lis": []int{}, "lnds": []int{}, "lisf": []int{}, "lndsf": []int{}, "vs2": []int{}}
	guard(ev, func() {
		a2, b2 := views(buf, a, b, alias)
		o1 := slice.LCS(a2, b2)
		o2 := slice.LCSFunc(a2, b2, func(x, y int) bool { return x == y })
		if curSess == nil {
			scrambleEdit() // both results are held across further calls
		}
		ev["out"] = ints(slices.Clone(o1))
		ev["outf"] = ints(slices.Clone(o2))
		ev["sess"] = sessFlag()
		ev["a2"], ev["b2"] = ints(a2), ints(b2)
	})
	return ev
}

func c12lis(vs []int, rev bool) Ev { return c12lisM(vs, rev, 0) }

func c12lisM(vs []int, rev bool, mag int) Ev {
	ev := Ev{"op": "new", "kind": "lis", "buf": []int{}, "alias": []int{}, "mag": mag, "a": []int{}, "b": []int{}, "out": []int{}, "outf": []int{}, "a2": []int{}, "b2": []int{},
		"vs": ints(vs), "rev": rev, "lis": []int{}, "lnds": []int{}, "lisf": []int{}, "lndsf": []int{}, "vs2": []int{}}
	ev["sess"] = sessFlag()
	guard(ev, func() {
		v2 := slices.Clone(vs)
		if curSess != nil && len(vs) <= len(curSess.a) {
			copy(curSess.a[:], vs)
			v2 = curSess.a[:len(vs)]
		}
		sign := 1
		if rev {
			sign = -1
		}
		cf := cmp.Compare[int]
		switch { // any magnitude is a legal comparator result
		case mag == 2:
			cf = func(a, b int) int { return sign * ((a - b) << 32) }
		case mag == 3:
			cf = func(a, b int) int { return sign * ((a - b) << 31) }
		case mag == 4:
			cf = func(a, b int) int {
				switch c := sign * cmp.Compare(a, b); {
				case c < 0:
					return math.MinInt
				case c > 0:
					return math.MaxInt
				}
				return 0
			}
		case rev || mag == 1:
			cf = func(a, b int) int { return sign * 7 * (a - b) }
		}
		ev["lisf"] = ints(slice.LISFunc(v2, cf))
		ev["lndsf"] = ints(slice.LNDSFunc(v2, cf))
		if rev {
			ev["lis"], ev["lnds"] = ev["lisf"], ev["lndsf"]
		} else {
			ev["lis"] = ints(slice.LIS(v2))
			ev["lnds"] = ints(slice.LNDS(v2))
		}
		ev["vs2"] = ints(v2)
	})
	return ev
}

func replayC12(c *Ctx, h *Hist, ops []Op) {
	curSess = nil
	if len(ops) > 0 && geti(ops[0], "sess") == 1 {
		curSess = &sessArena{}
		defer func() { curSess = nil }()
	}
	for _, op := range ops {
		if gets(op, "kind") == "lcs" {
			h.Emit(c12lcsA(getis(op, "buf"), getis(op, "a"), getis(op, "b"), getis(op, "alias")))
		} else {
			h.Emit(c12lisM(getis(op, "vs"), getb(op, "rev"), geti(op, "mag")))
		}
	}
}

func runC12(c *Ctx) {
	pairs, seqs := parseInputs(c)
	for _, p := range pairs {
		c.NewHist("tlc-lcs").Emit(c12lcs(p[0], p[1]))
	}
	for i, s := range seqs {
		c.NewHist("tlc-lis").Emit(c12lis(s, false))
		c.NewHist("tlc-lis").Emit(c12lis(s, true))
		c.NewHist("tlc-lis-mag").Emit(c12lisM(s, i%2 == 0, 2+i%3))
	}
	for i := 0; i < c.Pick(800, 20000); i++ {
		rng := c.Rng("c12-alias", i)
		buf, alias := aliasCases(rng)
		c.NewHist("aliased-lcs").Emit(c12lcsA(buf, nil, nil, alias))
	}
	// sessions (see c11): LCS with buffers rewritten in place; LIS/LNDS on inputs of more than
	// 64 elements in turn: sorted, then unsorted with a late minimum, then the first again
	for i := 0; i < c.Pick(200, 4000); i++ {
		rng := c.Rng("c12-sess", i)
		h := c.NewHist("session")
		curSess = &sessArena{}
		if i%2 == 0 {
			a, b := relatedPair(rng, 10, 3)
			for step := 0; step < 4; step++ {
				h.Emit(c12lcs(a, b))
				if rng.Intn(3) > 0 {
					a, b = slices.Clone(a), slices.Clone(b)
					for j := range a {
						if rng.Intn(2) == 0 {
							a[j] = 1 + rng.Intn(4)
						}
					}
					for j := range b {
						if rng.Intn(2) == 0 {
							b[j] = 1 + rng.Intn(4)
						}
					}
				}
			}
		} else {
			n := 65 + rng.Intn(30)
			sorted := make([]int, n)
			for j := range sorted {
				sorted[j] = 10 + j - j%3 // non-decreasing with plateaus
			}
			rev := rng.Intn(2) == 0
			late := make([]int, n)
			for j := range late {
				late[j] = 50 + rng.Intn(40)
			}
			late[1+rng.Intn(n-1)] = 1 // a new minimum after index 0
			neg := func(q []int) []int {
				if !rev {
					return q
				}
				out := make([]int, len(q))
				for j, x := range q {
					out[j] = -x
				}
				return out
			}
			h.Emit(c12lis(neg(sorted), rev))
			h.Emit(c12lis(neg(late), rev))
			h.Emit(c12lis(neg(sorted), rev))
			h.Emit(c12lis(neg(late), rev))
		}
		curSess = nil
	}
	// "refine": a long increasing run, then an echo of a value a fixed distance
	// before the end, then a run that refines the gap above it - every tail
	// after the echoed one is replaced in turn, so a mis-placed replacement
	// (e.g. by a windowed or galloping search) ends up in the answer.
	for i := 0; i < c.Pick(400, 2000); i++ {
		rng := c.Rng("c12-refine", i)
		m := 20 + rng.Intn(60)
		rev := rng.Intn(2) == 0
		var vs []int
		for j := 0; j < m; j++ {
			vs = append(vs, 100*j)
			if rng.Intn(12) == 0 {
				vs = append(vs, 100*j) // plateau
			}
		}
		back := []int{1, 2, 8, 16, 31, 32, 33, 34, 63, 64, 65}[rng.Intn(11)]
		if back >= m {
			back = 1 + rng.Intn(m)
		}
		v := 100 * (m - back)
		vs = append(vs, v)
		for k := rng.Intn(back + 4); k > 0; k-- {
			v += 1 + rng.Intn(2)
			vs = append(vs, v)
		}
		if rev {
			for j := range vs {
				vs[j] = -vs[j]
			}
		}
		c.NewHist("refine-lis").Emit(c12lis(vs, rev))
	}
	n := c.Pick(800, 16000) // the declarative optimum costs ~0.4 s per 150-element input in TLC
	for i := 0; i < n; i++ {
		rng := c.Rng("c12", i)
		switch i % 4 {
		case 0:
			a, b := relatedPair(rng, 40, 2+rng.Intn(3))
			c.NewHist("random-lcs").Emit(c12lcs(a, b))
		case 1: // heavy duplication
			vs := make([]int, rng.Intn(61))
			for j := range vs {
				vs[j] = rng.Intn(6)
			}
			c.NewHist("random-lis").Emit(c12lisM(vs, rng.Intn(2) == 0, rng.Intn(5)))
		case 2: // long, mostly monotone with plateaus and echoes of earlier values
			n := 40 + rng.Intn(c.Pick(50, 110))
			rev := rng.Intn(2) == 0
			vs := make([]int, 0, n)
			cur := 0
			step := []int{1, 3, 100}[rng.Intn(3)]
			for len(vs) < n {
				switch r := rng.Intn(20); {
				case r < 12:
					cur += step + rng.Intn(step)
					vs = append(vs, cur)
				case r < 15:
					vs = append(vs, cur) // plateau
				case r < 18:
					if len(vs) > 0 {
						vs = append(vs, vs[rng.Intn(len(vs))]) // echo an earlier value
					}
				default:
					// echo an earlier value, then refine the gap above it with a
					// run of consecutive values (many tails move at once)
					if len(vs) > 0 {
						v := vs[rng.Intn(len(vs))]
						vs = append(vs, v)
						for k := 1 + rng.Intn(40); k > 0 && len(vs) < n; k-- {
							v++
							vs = append(vs, v)
						}
					}
				}
			}
			if rev {
				for j := range vs {
					vs[j] = -vs[j]
				}
			}
			c.NewHist("random-lis-long").Emit(c12lis(vs, rev))
		default:
			vs := make([]int, rng.Intn(41))
			for j := range vs {
				vs[j] = rng.Intn(100)
			}
			c.NewHist("random-lis").Emit(c12lis(vs, rng.Intn(2) == 0))
		}
	}
}
