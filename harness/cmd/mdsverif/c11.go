package main

// C11 / C12: slice.EditScript, LCS, LIS, LNDS.  One record per call; every
// record is its own history (op "new").  Inputs come from the TLC-enumerated
// space (lines {lhs, rhs} and {vs}) plus seeded longer inputs.

import (
	"cmp"
	"encoding/json"
	"math/rand"
	"slices"

	"github.com/creachadair/mds/slice"
)

func init() {
	props["C11"] = &Prop{Run: runC11, Replay: replayC11}
	props["C12"] = &Prop{Run: runC12, Replay: replayC12}
}

func c11rec(lhs, rhs []int) Ev {
	ev := Ev{"op": "new", "lhs": ints(lhs), "rhs": ints(rhs), "script": []any{}, "lhs2": []int{}, "rhs2": []int{}}
	guard(ev, func() {
		l2, r2 := slices.Clone(lhs), slices.Clone(rhs)
		es := slice.EditScript(l2, r2)
		script := make([]any, 0, len(es))
		for _, e := range es {
			script = append(script, []any{string(rune(e.Op)), ints(e.X), ints(e.Y)})
		}
		ev["script"] = script
		ev["lhs2"], ev["rhs2"] = ints(l2), ints(r2)
	})
	return ev
}

func replayC11(c *Ctx, h *Hist, ops []Op) {
	for _, op := range ops {
		h.Emit(c11rec(getis(op, "lhs"), getis(op, "rhs")))
	}
}

type pairIn struct {
	Lhs []int `json:"lhs"`
	Rhs []int `json:"rhs"`
	Vs  []int `json:"vs"`
	isV bool
}

func parseInputs(c *Ctx) (pairs [][2][]int, seqs [][]int) {
	for _, raw := range c.RawPaths {
		var m map[string]json.RawMessage
		if json.Unmarshal(raw, &m) != nil {
			continue
		}
		if v, ok := m["vs"]; ok {
			var s []int
			json.Unmarshal(v, &s)
			seqs = append(seqs, s)
		} else if _, ok := m["lhs"]; ok {
			var a, b []int
			json.Unmarshal(m["lhs"], &a)
			json.Unmarshal(m["rhs"], &b)
			pairs = append(pairs, [2][]int{a, b})
		}
	}
	return
}

// related pair: rhs derived from lhs by a few edits (long common runs)
func relatedPair(rng *rand.Rand, maxLen, alpha int) ([]int, []int) {
	n := rng.Intn(maxLen + 1)
	lhs := make([]int, n)
	for i := range lhs {
		lhs[i] = 1 + rng.Intn(alpha)
	}
	rhs := slices.Clone(lhs)
	for k := rng.Intn(6); k > 0; k-- {
		switch rng.Intn(3) {
		case 0: // delete a run
			if len(rhs) > 0 {
				i := rng.Intn(len(rhs))
				j := min(len(rhs), i+1+rng.Intn(4))
				rhs = append(rhs[:i:i], rhs[j:]...)
			}
		case 1: // insert a run
			i := rng.Intn(len(rhs) + 1)
			var ins []int
			for m := 1 + rng.Intn(4); m > 0; m-- {
				ins = append(ins, 1+rng.Intn(alpha))
			}
			rhs = append(rhs[:i:i], append(ins, rhs[i:]...)...)
		default: // change one
			if len(rhs) > 0 {
				rhs[rng.Intn(len(rhs))] = 1 + rng.Intn(alpha)
			}
		}
	}
	if rng.Intn(2) == 0 {
		return rhs, lhs
	}
	return lhs, rhs
}

func runC11(c *Ctx) {
	pairs, _ := parseInputs(c)
	for _, p := range pairs {
		c.NewHist("tlc-input").Emit(c11rec(p[0], p[1]))
	}
	n := c.Pick(3000, 120000)
	for i := 0; i < n; i++ {
		rng := c.Rng("c11", i)
		var a, b []int
		switch i % 3 {
		case 0:
			a, b = relatedPair(rng, 40, 2+rng.Intn(4))
		case 1: // periodic / repetitive
			a, b = relatedPair(rng, 24, 2)
		default: // unrelated
			a = make([]int, rng.Intn(20))
			b = make([]int, rng.Intn(20))
			for j := range a {
				a[j] = 1 + rng.Intn(3)
			}
			for j := range b {
				b[j] = 1 + rng.Intn(3)
			}
		}
		c.NewHist("random").Emit(c11rec(a, b))
	}
}

// ---- C12 -----------------------------------------------------------------------

func c12lcs(a, b []int) Ev {
	ev := Ev{"op": "new", "kind": "lcs", "a": ints(a), "b": ints(b), "out": []int{}, "outf": []int{}, "a2": []int{}, "b2": []int{},
		"vs": []int{}, "rev": false, "lis": []int{}, "lnds": []int{}, "lisf": []int{}, "lndsf": []int{}, "vs2": []int{}}
	guard(ev, func() {
		a2, b2 := slices.Clone(a), slices.Clone(b)
		ev["out"] = ints(slice.LCS(a2, b2))
		ev["outf"] = ints(slice.LCSFunc(a2, b2, func(x, y int) bool { return x == y }))
		ev["a2"], ev["b2"] = ints(a2), ints(b2)
	})
	return ev
}

func c12lis(vs []int, rev bool) Ev {
	ev := Ev{"op": "new", "kind": "lis", "a": []int{}, "b": []int{}, "out": []int{}, "outf": []int{}, "a2": []int{}, "b2": []int{},
		"vs": ints(vs), "rev": rev, "lis": []int{}, "lnds": []int{}, "lisf": []int{}, "lndsf": []int{}, "vs2": []int{}}
	guard(ev, func() {
		v2 := slices.Clone(vs)
		cf := cmp.Compare[int]
		if rev {
			cf = func(a, b int) int { return 7 * (b - a) }
		}
		ev["lisf"] = ints(slice.LISFunc(v2, cf))
		ev["lndsf"] = ints(slice.LNDSFunc(v2, cf))
		if rev {
			ev["lis"], ev["lnds"] = ev["lisf"], ev["lndsf"]
		} else {
			ev["lis"] = ints(slice.LIS(v2))
			ev["lnds"] = ints(slice.LNDS(v2))
		}
		ev["vs2"] = ints(v2)
	})
	return ev
}

func replayC12(c *Ctx, h *Hist, ops []Op) {
	for _, op := range ops {
		if gets(op, "kind") == "lcs" {
			h.Emit(c12lcs(getis(op, "a"), getis(op, "b")))
		} else {
			h.Emit(c12lis(getis(op, "vs"), getb(op, "rev")))
		}
	}
}

func runC12(c *Ctx) {
	pairs, seqs := parseInputs(c)
	for _, p := range pairs {
		c.NewHist("tlc-lcs").Emit(c12lcs(p[0], p[1]))
	}
	for _, s := range seqs {
		c.NewHist("tlc-lis").Emit(c12lis(s, false))
		c.NewHist("tlc-lis").Emit(c12lis(s, true))
	}
	// "refine": a long increasing run, then an echo of a value a fixed distance
	// before the end, then a run that refines the gap above it - every tail
	// after the echoed one is replaced in turn, so a mis-placed replacement
	// (e.g. by a windowed or galloping search) ends up in the answer.
	for i := 0; i < c.Pick(400, 6000); i++ {
		rng := c.Rng("c12-refine", i)
		m := 20 + rng.Intn(60)
		rev := rng.Intn(2) == 0
		var vs []int
		for j := 0; j < m; j++ {
			vs = append(vs, 100*j)
			if rng.Intn(12) == 0 {
				vs = append(vs, 100*j) // plateau
			}
		}
		back := []int{1, 2, 8, 16, 31, 32, 33, 34, 63, 64, 65}[rng.Intn(11)]
		if back >= m {
			back = 1 + rng.Intn(m)
		}
		v := 100 * (m - back)
		vs = append(vs, v)
		for k := rng.Intn(back + 4); k > 0; k-- {
			v += 1 + rng.Intn(2)
			vs = append(vs, v)
		}
		if rev {
			for j := range vs {
				vs[j] = -vs[j]
			}
		}
		c.NewHist("refine-lis").Emit(c12lis(vs, rev))
	}
	n := c.Pick(800, 60000)
	for i := 0; i < n; i++ {
		rng := c.Rng("c12", i)
		switch i % 4 {
		case 0:
			a, b := relatedPair(rng, 40, 2+rng.Intn(3))
			c.NewHist("random-lcs").Emit(c12lcs(a, b))
		case 1: // heavy duplication
			vs := make([]int, rng.Intn(61))
			for j := range vs {
				vs[j] = rng.Intn(6)
			}
			c.NewHist("random-lis").Emit(c12lis(vs, rng.Intn(2) == 0))
		case 2: // long, mostly monotone with plateaus and echoes of earlier values
			n := 40 + rng.Intn(c.Pick(50, 110))
			rev := rng.Intn(2) == 0
			vs := make([]int, 0, n)
			cur := 0
			step := []int{1, 3, 100}[rng.Intn(3)]
			for len(vs) < n {
				switch r := rng.Intn(20); {
				case r < 12:
					cur += step + rng.Intn(step)
					vs = append(vs, cur)
				case r < 15:
					vs = append(vs, cur) // plateau
				case r < 18:
					if len(vs) > 0 {
						vs = append(vs, vs[rng.Intn(len(vs))]) // echo an earlier value
					}
				default:
					// echo an earlier value, then refine the gap above it with a
					// run of consecutive values (many tails move at once)
					if len(vs) > 0 {
						v := vs[rng.Intn(len(vs))]
						vs = append(vs, v)
						for k := 1 + rng.Intn(40); k > 0 && len(vs) < n; k-- {
							v++
							vs = append(vs, v)
						}
					}
				}
			}
			if rev {
				for j := range vs {
					vs[j] = -vs[j]
				}
			}
			c.NewHist("random-lis-long").Emit(c12lis(vs, rev))
		default:
			vs := make([]int, rng.Intn(41))
			for j := range vs {
				vs[j] = rng.Intn(100)
			}
			c.NewHist("random-lis").Emit(c12lis(vs, rng.Intn(2) == 0))
		}
	}
}
