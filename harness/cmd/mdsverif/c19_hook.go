//go:build verif

package main

import (
	"math/rand/v2"

	"github.com/creachadair/mds/distinct"
)

const c19hooks = true

func c19new(size int, src rand.Source) *distinct.Counter[int] {
	return distinct.VerifNewCounter[int](size, src)
}
func c19k(c *distinct.Counter[int]) int     { return c.VerifK() }
func c19buf(c *distinct.Counter[int]) []int { return c.VerifBuf() }
