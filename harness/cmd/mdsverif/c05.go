package main

// C05 / C06: heapq.Queue.  Elements are {P, ID}; the comparison looks at P
// only, times dir (1 ascending, -1 descending).  Events: new {dir, vs}
// (NewWithData over vs, then Update(cb)); add {e}; pop; remove {i, target};
// set {vs}; reorder {dir}; clear; sort {dir, vs} (heapq.Sort on a copy).
// Logged: ret/rok (Pop, Remove), ri (Add's return), peek = Peek(i) before a
// Remove, len, empty, front, arr (Each), moves = callback log of this call.

import (
	"github.com/creachadair/mds/heapq"
)

func init() {
	props["C05"] = &Prop{Run: runC05, Replay: replayC05}
	props["C06"] = &Prop{Run: runC06, Replay: replayC05}
}

type he struct{ P, ID int }

type c05state struct {
	q     *heapq.Queue[he]
	dir   int
	moves [][2]int
	pos   map[int]int // driver-side: last reported position per id
}

func (st *c05state) cmp(dir int) func(a, b he) int {
	return func(a, b he) int {
		switch {
		case a.P < b.P:
			return -dir
		case a.P > b.P:
			return dir
		}
		return 0
	}
}

func hj(e he) [2]int { return [2]int{e.P, e.ID} }
func heOf(v any) he {
	a := v.([]any)
	return he{int(a[0].(float64)), int(a[1].(float64))}
}
func hesOf(v any) []he {
	l, _ := v.([]any)
	out := make([]he, len(l))
	for i, x := range l {
		out[i] = heOf(x)
	}
	return out
}
func hjs(v []he) [][2]int {
	out := make([][2]int, len(v))
	for i, x := range v {
		out[i] = hj(x)
	}
	return out
}

func c05exec(c *Ctx, st *c05state, op Op) Ev {
	name := gets(op, "op")
	ev := Ev{"op": name, "kind": "small", "lastpos": []int{}, "dir": st.dir, "upd": 1, "e": [2]int{0, 0}, "i": geti(op, "i"), "vs": [][2]int{},
		"ret": [2]int{0, 0}, "rok": true, "ri": -1, "peek": [3]int{0, 0, 0}, "len": 0, "empty": true,
		"front": [2]int{0, 0}, "arr": [][2]int{}, "moves": [][2]int{}, "target": geti(op, "target"), "out": [][2]int{}, "spare": geti(op, "spare"),
		"blind": geti(op, "blind")}
	guard(ev, func() {
		st.moves = nil
		switch name {
		case "new":
			st.dir = geti(op, "dir")
			if st.dir == 0 {
				st.dir = 1
			}
			vs := hesOf(op["vs"])
			ev["vs"] = hjs(vs)
			st.pos = map[int]int{}
			data := append(make([]he, 0, len(vs)+geti(op, "spare")), vs...)
			st.q = heapq.NewWithData(st.cmp(st.dir), data).Update(func(e he, p int) {
				st.moves = append(st.moves, [2]int{e.ID, p})
				st.pos[e.ID] = p
			})
		case "add":
			e := heOf(op["e"])
			ev["e"] = hj(e)
			ev["ri"] = st.q.Add(e)
		case "pop":
			r, ok := st.q.Pop()
			ev["ret"], ev["rok"] = hj(r), ok
		case "remove":
			i := geti(op, "i")
			pk, pok := st.q.Peek(i)
			ev["peek"] = [3]int{pk.P, pk.ID, b2i(pok)}
			r, ok := st.q.Remove(i)
			ev["ret"], ev["rok"] = hj(r), ok
		case "set":
			vs := hesOf(op["vs"])
			ev["vs"] = hjs(vs)
			st.q.Set(vs)
		case "reorder":
			st.dir = geti(op, "dir")
			st.q.Reorder(st.cmp(st.dir))
		case "clear":
			st.q.Clear()
		case "sort":
			vs := hesOf(op["vs"])
			ev["vs"] = hjs(vs)
			d := geti(op, "dir")
			cp := append([]he(nil), vs...)
			heapq.Sort(st.cmp(d), cp)
			ev["out"] = hjs(cp)
			ev["dir"] = d
			return
		default:
			die("C05: unknown op %q", name)
		}
		ev["dir"] = st.dir
		if geti(op, "blind") == 1 {
			// no observer is called between this call and the next: the queue must not rely on
			// being looked at to put itself in order
			if st.moves != nil {
				ev["moves"] = st.moves
			}
			return
		}
		ev["len"] = st.q.Len()
		ev["empty"] = st.q.IsEmpty()
		ev["front"] = hj(st.q.Front())
		arr := [][2]int{}
		st.q.Each(func(e he) bool { arr = append(arr, hj(e)); return true })
		ev["arr"] = arr
		if st.moves != nil {
			ev["moves"] = st.moves
		}
	})
	return ev
}

func replayC05(c *Ctx, h *Hist, ops []Op) {
	if len(ops) > 0 && gets(ops[0], "kind") == "big" {
		c.Seed = int64(geti(ops[0], "gseed"))
		c06bigOne(c, h, geti(ops[0], "gi"))
		return
	}
	st := &c05state{dir: 1}
	for i, op := range ops {
		if i == 0 && gets(op, "op") != "new" {
			h.Emit(c05exec(c, st, Op{"op": "new", "dir": 1, "vs": []any{}}))
		}
		h.Emit(c05exec(c, st, op))
	}
}

func anyPairs(v [][2]int) []any {
	out := make([]any, len(v))
	for i, x := range v {
		out[i] = []any{float64(x[0]), float64(x[1])}
	}
	return out
}

func c05random(c *Ctx, label string, nh int, distinct bool) {
	for i := 0; i < nh; i++ {
		c.genGuard(func() {
			rng := c.Rng(label, i)
			kind := []string{"mixed", "remove-heavy", "grow-drain", "reorder", "set-heavy", "sort"}[i%6]
			if distinct && kind == "sort" {
				kind = "bypos"
			}
			blind := false
			if label == "c05" && i%12 == 4 {
				kind, blind = "mixed", true // "mixed" with most calls unobserved
			}
			h := c.NewHist(kind)
			if blind {
				h = c.NewHist("mixed-blind")
			}
			st := &c05state{dir: 1}
			do := func(op Op) Ev {
				if blind && gets(op, "op") != "new" && rng.Intn(3) > 0 {
					op["blind"] = 1
				}
				ev := c05exec(c, st, op)
				h.Emit(ev)
				return ev
			}
			nextID := 0
			used := map[int]bool{}
			prioRange := []int{3, 6, 12, 100}[rng.Intn(4)]
			mk := func() []any {
				nextID++
				p := 1 + rng.Intn(prioRange)
				if distinct {
					for used[p] {
						p = 1 + rng.Intn(1<<20)
					}
					used[p] = true
				}
				return []any{float64(p), float64(nextID)}
			}
			mkn := func(n int) []any {
				out := make([]any, n)
				for j := range out {
					out[j] = mk()
				}
				return out
			}
			dir := []int{1, -1}[rng.Intn(2)]
			if kind == "sort" {
				do(Op{"op": "new", "dir": dir, "vs": []any{}})
				for j := 0; j < 12; j++ {
					n := rng.Intn(40)
					if j < 3 {
						n = j
					}
					do(Op{"op": "sort", "dir": []int{1, -1}[rng.Intn(2)], "vs": mkn(n)})
				}
				return
			}
			if !distinct && label == "c05" && i%12 == 10 && i < 60 {
				// a large buffer that holds little: pre-allocated (as NewWithData's documentation
				// suggests), emptied by Clear, or replaced by a short Set; then Pop / Set / Pop
				// (only Set-built heaps and Pop, which the known findings do not touch)
				do(Op{"op": "new", "dir": dir, "vs": mkn(rng.Intn(3)), "spare": 4096 + rng.Intn(6000)})
				do(Op{"op": "pop"})
				do(Op{"op": "set", "vs": mkn(4200 + rng.Intn(3000))})
				do(Op{"op": "pop"})
				if rng.Intn(2) == 0 {
					do(Op{"op": "clear"})
				} else {
					do(Op{"op": "set", "vs": mkn(1 + rng.Intn(4))})
				}
				do(Op{"op": "pop"})
				do(Op{"op": "set", "vs": mkn(2 + rng.Intn(4))})
				for k := 0; st.q.Len() > 0 && k < 12; k++ { // at most 5 elements remain; bounded in case Len misbehaves
					do(Op{"op": "pop"})
				}
				do(Op{"op": "pop"})
				return
			}
			do(Op{"op": "new", "dir": dir, "vs": mkn([]int{0, 0, 1, 2, 5, 9, 17}[rng.Intn(7)]), "spare": rng.Intn(4)})
			maxLen := []int{8, 16, 40}[rng.Intn(3)]
			nops := 30 + rng.Intn(c.Pick(70, 160))
			for j := 0; j < nops; j++ {
				r := rng.Intn(100)
				n := st.q.Len()
				removeAt := func() Op {
					idx := 0
					if n > 0 {
						idx = rng.Intn(n + 1) // may be == n: out of range, must report false
					}
					return Op{"op": "remove", "i": idx}
				}
				switch kind {
				case "mixed":
					switch {
					case r < 40 && n < maxLen:
						do(Op{"op": "add", "e": mk()})
					case r < 60:
						do(Op{"op": "pop"})
					case r < 85:
						do(removeAt())
					case r < 90:
						dir = -dir
						do(Op{"op": "reorder", "dir": dir})
					case r < 95:
						do(Op{"op": "set", "vs": mkn(rng.Intn(12))})
					case r < 97:
						do(Op{"op": "clear"})
					default:
						do(Op{"op": "add", "e": mk()})
					}
				case "remove-heavy":
					if n < 7 || (r < 35 && n < maxLen) {
						do(Op{"op": "add", "e": mk()})
					} else if r < 85 {
						do(removeAt())
					} else {
						do(Op{"op": "pop"})
					}
				case "grow-drain":
					if (j/25)%2 == 0 && n < maxLen {
						do(Op{"op": "add", "e": mk()})
					} else {
						do(Op{"op": "pop"})
					}
				case "reorder":
					if r < 15 {
						dir = -dir
						do(Op{"op": "reorder", "dir": dir})
					} else if r < 60 && n < maxLen {
						do(Op{"op": "add", "e": mk()})
					} else if r < 80 {
						do(Op{"op": "pop"})
					} else {
						do(removeAt())
					}
				case "set-heavy":
					if r < 25 {
						do(Op{"op": "set", "vs": mkn(rng.Intn(20))})
					} else if r < 55 && n < maxLen {
						do(Op{"op": "add", "e": mk()})
					} else if r < 80 {
						do(Op{"op": "pop"})
					} else {
						do(removeAt())
					}
				case "bypos":
					// remove a chosen element through its last reported position (C06)
					if n < 5 || (r < 40 && n < maxLen) {
						do(Op{"op": "add", "e": mk()})
					} else if r < 50 {
						do(Op{"op": "pop"})
					} else if r < 55 {
						do(Op{"op": "set", "vs": mkn(3 + rng.Intn(9))})
					} else {
						// pick a live tracked element
						var ids []int
						st.q.Each(func(e he) bool {
							if _, ok := st.pos[e.ID]; ok {
								ids = append(ids, e.ID)
							}
							return true
						})
						if len(ids) == 0 {
							do(Op{"op": "add", "e": mk()})
						} else {
							id := ids[rng.Intn(len(ids))]
							do(Op{"op": "remove", "i": st.pos[id], "target": id})
						}
					}
				}
			}
			// drain: must come out in non-decreasing order (each Pop minimal)
			for k := 0; st.q.Len() > 0 && k < 400; k++ {
				do(Op{"op": "pop"})
			}
			do(Op{"op": "pop"})
		})
	}
}

func runC05(c *Ctx) {
	for _, p := range c.Paths {
		replayC05(c, c.NewHist("tlc-path"), p)
	}
	c05random(c, "c05", c.Pick(240, 6000), false)
}

func runC06(c *Ctx) {
	for _, p := range c.Paths {
		replayC05(c, c.NewHist("tlc-path"), p)
	}
	c05random(c, "c06", c.Pick(240, 6000), true)
	c05random(c, "c06-ties", c.Pick(180, 4000), false) // distinct elements of equal priority
	c06big(c)
}

// c06big: more than 2^16 elements, so that offsets no longer fit 16 bits.  The
// callback log is applied by the driver (lastpos[id] = most recent report); the
// event carries the array and that table instead of the raw log.
func c06big(c *Ctx) {
	for i := 0; i < c.Pick(1, 4); i++ {
		c06bigOne(c, c.NewHist("big-heap"), i)
	}
}

func c06bigOne(c *Ctx, h *Hist, i int) {
	{
		rng := c.Rng("c06-big", i)
		n := 66000 + rng.Intn(6000)
		last := make([]int, n+1)
		q := heapq.New(func(a, b he) int { return a.P - b.P }).Update(func(e he, p int) { last[e.ID] = p })
		emit := func(name string, ret he, ok bool, target int) {
			arr := make([][2]int, 0, q.Len())
			q.Each(func(e he) bool { arr = append(arr, hj(e)); return true })
			h.Emit(Ev{"op": name, "kind": "big", "arr": arr, "lastpos": last[1:], "ret": hj(ret), "rok": ok, "target": target, "len": q.Len(),
				"dir": 1, "upd": 1, "e": [2]int{0, 0}, "i": 0, "vs": [][2]int{}, "ri": -1, "peek": [3]int{0, 0, 0}, "empty": q.IsEmpty(),
				"front": hj(q.Front()), "moves": [][2]int{}, "out": [][2]int{}, "spare": 0, "blind": 0, "gi": i, "gseed": int(c.Seed)})
		}
		vs := make([]he, n)
		for j := range vs {
			vs[j] = he{P: 1 + rng.Intn(1<<20), ID: j + 1}
		}
		q.Set(vs)
		emit("new", he{}, true, 0) // first event of a history
		for k := 0; k < 3; k++ {
			r, ok := q.Pop()
			last[r.ID] = -1
			emit("pop", r, ok, 0)
		}
		// remove an element through its reported position, deep in the array
		var deep he
		pos := 0
		q.Each(func(e he) bool {
			if pos == 65536+rng.Intn(400) || pos == q.Len()-2 {
				deep = e
				return false
			}
			pos++
			return true
		})
		r, ok := q.Remove(last[deep.ID])
		last[r.ID] = -1
		emit("remove", r, ok, deep.ID)
	}
}
