package main

// C19: distinct.Counter.  Events: new {size}; add {v, script} ; reset.
// With the overlay hooks the counter is built over a scripted random source:
// a TLC path prescribes the coin of an Add (keep/fail) and how many elements
// survive each halving pass; the words actually consumed are logged (coinw,
// masks) together with the sampling state after the call (k, buf) and the
// public observations Len and Count.  Without hooks only Len/Count are logged.
// The statistical clause (mean of Count over independent real-entropy runs)
// is measured here in exact integers and judged by bin/check.

import (
	"math"
	"math/big"
	"math/rand/v2"
	"sort"
	"strconv"

	"github.com/creachadair/mds/distinct"
)

func init() { props["C19"] = &Prop{Run: runC19, Replay: replayC19} }

type scriptSrc struct {
	q          []uint64
	used       []uint64
	all        []uint64 // every word handed out during the current call
	unscripted int
	fallback   rand.Source
}

func (s *scriptSrc) Uint64() uint64 {
	if len(s.q) > 0 {
		w := s.q[0]
		s.q = s.q[1:]
		s.used = append(s.used, w)
		s.all = append(s.all, w)
		return w
	}
	s.unscripted++
	w := s.fallback.Uint64()
	s.all = append(s.all, w)
	return w
}

type c19state struct {
	c    *distinct.Counter[int]
	src  *scriptSrc
	size int
}

func encWord(w uint64) int {
	switch {
	case w == math.MaxUint64:
		return -1
	case w == math.MaxUint64-1:
		return -2
	case w < 1<<30:
		return int(w)
	}
	return -9
}

func c19exec(c *Ctx, st *c19state, op Op, seed uint64) Ev {
	name := gets(op, "op")
	v := geti(op, "v")
	ev := Ev{"op": name, "v": v, "size": st.size, "len": 0, "count": 0, "k": -1, "buf": []int{}, "hook": b2i(c19hooks),
		"scripted": 0, "coinw": -1, "masks": []int{}, "bufknown": 0, "words": []string{}, "wasScripted": false, "script": []int{}, "lite": 0}
	guard(ev, func() {
		switch name {
		case "new":
			st.size = geti(op, "size")
			ev["size"] = st.size
			st.src = &scriptSrc{fallback: rand.NewPCG(seed, 0x9e3779b97f4a7c15)}
			st.c = c19new(st.size, st.src)
		case "reset":
			st.c.Reset()
		case "add":
			kBefore := c19k(st.c)
			st.src.q, st.src.used, st.src.unscripted, st.src.all = nil, nil, 0, nil
			exact := false
			if c19hooks && has(op, "words") {
				// replay of a recorded call: feed exactly the words it consumed
				exact = true
				for _, x := range getany(op, "words") {
					w, _ := strconv.ParseUint(x.(string), 16, 64)
					st.src.q = append(st.src.q, w)
				}
			} else if c19hooks && has(op, "script") {
				for _, w := range getis(op, "script") {
					switch w {
					case -1:
						st.src.q = append(st.src.q, math.MaxUint64)
					case -2:
						st.src.q = append(st.src.q, math.MaxUint64-1)
					default:
						st.src.q = append(st.src.q, uint64(w))
					}
				}
			} else if c19hooks && has(op, "coin") {
				// TLC path: coin 0 keep / 1 fail (consumed only when k > 0), pops = survivors per pass
				if kBefore > 0 {
					if geti(op, "coin") == 1 {
						st.src.q = append(st.src.q, math.MaxUint64)
					} else {
						st.src.q = append(st.src.q, 0)
					}
				}
				for _, p := range getis(op, "pops") {
					st.src.q = append(st.src.q, (uint64(1)<<uint(p))-1)
				}
			}
			ev["script"] = func() []int {
				out := []int{}
				for _, w := range st.src.q {
					out = append(out, encWord(w))
				}
				return out
			}()
			st.c.Add(v)
			used := st.src.used
			words := []string{}
			for _, w := range st.src.all {
				words = append(words, strconv.FormatUint(w, 16))
			}
			ev["words"] = words
			if exact && !getb(op, "wasScripted") {
				// the recorded call ran on unscripted coins: do not claim knowledge of them
				used = nil
				st.src.unscripted = 1
			}
			ev["wasScripted"] = st.src.unscripted == 0
			if c19hooks && st.src.unscripted == 0 {
				ok := true
				ws := []int{}
				for _, w := range used {
					e := encWord(w)
					if e == -9 {
						ok = false
					}
					ws = append(ws, e)
				}
				if ok {
					ev["scripted"] = 1
					if kBefore > 0 && len(ws) > 0 {
						ev["coinw"] = b2i(used[0] != 0) // 0 keep, 1 fail
						ws = ws[1:]
					}
					ev["masks"] = ws
				}
			}
			st.src.q = nil
		default:
			die("C19: unknown op %q", name)
		}
		ev["len"] = st.c.Len()
		cnt := st.c.Count()
		if cnt < 1<<30 {
			ev["count"] = int(cnt)
		} else {
			ev["count"] = -1
		}
		if c19hooks {
			ev["k"] = c19k(st.c)
			b := c19buf(st.c)
			sort.Ints(b)
			ev["buf"] = ints(b)
			ev["bufknown"] = 1
		}
	})
	return ev
}

func replayC19(c *Ctx, h *Hist, ops []Op) {
	if len(ops) > 0 && geti(ops[0], "lite") == 1 {
		c19wide(h, geti(ops[0], "size"))
		return
	}
	st := &c19state{}
	for _, op := range ops {
		h.Emit(c19exec(c, st, op, uint64(c.Seed)))
	}
}

func runC19(c *Ctx) {
	for _, p := range c.Paths {
		replayC19(c, c.NewHist("tlc-coin-script"), p)
	}
	// seeded pseudo-random coins: many small buffers, repeated values
	nh := c.Pick(400, 10000)
	for i := 0; i < nh; i++ {
		c.genGuard(func() {
			rng := c.Rng("c19", i)
			h := c.NewHist("random-coins")
			st := &c19state{}
			size := 2 + rng.Intn(7)
			do := func(op Op) { h.Emit(c19exec(c, st, op, uint64(c.Seed)*1000003+uint64(i))) }
			do(Op{"op": "new", "size": size})
			nvals := size + rng.Intn(3*size)
			for j := 20 + rng.Intn(80); j > 0; j-- {
				if rng.Intn(40) == 0 {
					do(Op{"op": "reset"})
				} else {
					do(Op{"op": "add", "v": 1 + rng.Intn(nvals)})
				}
			}
		})
	}
	// large buffers with scripted passes: every word all-ones except bit 0 of
	// the first, so exactly one element may go per pass
	if c19hooks {
		for i := 0; i < c.Pick(12, 60); i++ {
			rng := c.Rng("c19-big", i)
			h := c.NewHist("big-scripted")
			st := &c19state{}
			size := []int{64, 65, 66, 100, 128, 129, 130, 200}[i%8]
			do := func(op Op) { h.Emit(c19exec(c, st, op, uint64(i))) }
			do(Op{"op": "new", "size": size})
			v := 0
			for round := 0; round < 3; round++ {
				for st.c.Len() < size-1 {
					v++
					do(Op{"op": "add", "v": v, "script": []int{0}}) // keep
				}
				v++
				words := []int{0, -2}
				for w := (size + 63) / 64; w > 1; w-- {
					words = append(words, -1)
				}
				do(Op{"op": "add", "v": v, "script": words})
				_ = rng
			}
		}
	}
	// buffer sizes around 2^16 and 2^17: the exact regime must hold up to the size given
	// (public observations only: the buffer itself is not logged)
	for i, size := range []int{65535, 65536, 65537, 70000, 131072, 256, 257} {
		if !c.Thorough() && i >= 4 && i < 5 {
			continue
		}
		c19wide(c.NewHist("wide-size"), size)
	}
	// many eviction passes on one counter: k must keep growing (scripted: keep, evict everything)
	if c19hooks {
		for i := 0; i < 2; i++ {
			h := c.NewHist("many-passes")
			st := &c19state{}
			do := func(op Op) { h.Emit(c19exec(c, st, op, uint64(i))) }
			do(Op{"op": "new", "size": 2 + i})
			for v := 1; v <= 30*(2+i); v++ {
				do(Op{"op": "add", "v": v, "script": []int{0, 0}}) // coin keep; if a pass runs, nobody survives
			}
		}
	}
	// statistical clause: real entropy, exact integer sums
	// reuse = 1: the counter has already overflowed on another stream and was Reset: "restores the
	// exact regime" must mean that nothing of its first life shows in the second
	type statCfg struct{ size, distinct, repeat, reuse int }
	cfgs := []statCfg{{16, 200, 1, 0}, {32, 1000, 3, 0}, {64, 1500, 3, 0}, {200, 6000, 2, 0}, {8, 40, 2, 0}, {100, 90, 4, 0},
		{16, 200, 1, 1}, {64, 1500, 2, 1}}
	runs := c.Pick(3000, 40000)
	var stats []any
	for _, cf := range cfgs {
		sum, sumsq := new(big.Int), new(big.Int)
		n := runs
		if cf.distinct >= 6000 {
			n = runs / 3
		}
		maxLen := 0
		for r := 0; r < n; r++ {
			if r%64 == 0 {
				c.Beat()
			}
			ctr := distinct.NewCounter[int](cf.size)
			if cf.reuse == 1 {
				for v := 0; v < 6*cf.size; v++ {
					ctr.Add(-1 - v)
				}
				ctr.Reset()
			}
			// each value repeated `repeat` times in interleaved windows
			win := 50
			for base := 0; base < cf.distinct; base += win {
				for rep := 0; rep < cf.repeat; rep++ {
					for v := base; v < base+win && v < cf.distinct; v++ {
						ctr.Add(v)
						if l := ctr.Len(); l > maxLen {
							maxLen = l
						}
					}
				}
			}
			x := new(big.Int).SetUint64(ctr.Count())
			sum.Add(sum, x)
			sumsq.Add(sumsq, new(big.Int).Mul(x, x))
		}
		stats = append(stats, map[string]any{"size": cf.size, "distinct": cf.distinct, "repeat": cf.repeat, "reuse": cf.reuse, "runs": n,
			"sum": sum.String(), "sumsq": sumsq.String(), "maxlen": maxLen})
	}
	c.Extra["stats"] = stats
	c.Extra["hooks"] = c19hooks
}

// c19wide: a counter of the given (large) size fed fewer distinct values than
// its size, with repeats: the exact regime.  Public observations only.
func c19wide(h *Hist, size int) {
	ctr := distinct.NewCounter[int](size)
	lite := func(op string, v int) {
		h.Emit(Ev{"op": op, "v": v, "size": size, "len": ctr.Len(), "count": int(min(ctr.Count(), 1<<30)), "k": -1, "buf": []int{}, "hook": 0,
			"scripted": 0, "coinw": -1, "masks": []int{}, "bufknown": 0, "words": []string{}, "wasScripted": false, "script": []int{}, "lite": 1})
	}
	lite("new", 0)
	n := 5200
	if size < 1000 {
		n = size - 1
	}
	for v := 1; v <= n; v++ {
		ctr.Add(v)
		if v%3 == 0 {
			ctr.Add(v - 1) // repeats do not count
		}
		if v < 40 || v%97 == 0 || v > n-3 {
			lite("add", v)
		} else {
			lite("addq", v) // observed too, validated the same way
		}
	}
	ctr.Reset()
	lite("reset", 0)
	ctr.Add(7)
	lite("add", 7)
}
