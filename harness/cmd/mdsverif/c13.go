package main

// C13: mdiff chunks.  One record per (Left, Right, n): the chunks after New,
// after AddContext(n), after Unify, and Diff.Edits at each stage.  Lines are
// small integers in the records and the strings "l<k>" in the real call.

import (
	"encoding/json"
	"fmt"
	"math/rand"
	"strconv"

	"github.com/creachadair/mds/mdiff"
)

func init() { props["C13"] = &Prop{Run: runC13, Replay: replayC13} }

// lines 9001.. are words whose 32-bit FNV hashes collide pairwise (a diff must compare lines, not digests)
var collide = []string{"costarring", "liquid", "declinate", "macallums", "altarage", "zinke"}

func lineOf(k int) string {
	if k > 9000 && k <= 9000+len(collide) {
		return collide[k-9001]
	}
	return "l" + strconv.Itoa(k)
}
func linesOf(ks []int) []string {
	out := make([]string, len(ks))
	for i, k := range ks {
		out[i] = lineOf(k)
	}
	return out
}
func unline(ss []string) []int {
	out := make([]int, len(ss))
	for i, s := range ss {
		k := -1
		for j, w := range collide {
			if s == w {
				k = 9001 + j
			}
		}
		if k < 0 && len(s) > 1 {
			if v, err := strconv.Atoi(s[1:]); err == nil {
				k = v
			}
		}
		out[i] = k
	}
	return out
}

func editsJ(es []mdiff.Edit) []any {
	out := make([]any, 0, len(es))
	for _, e := range es {
		out = append(out, []any{string(rune(e.Op)), unline(e.X), unline(e.Y)})
	}
	return out
}

func chunksJ(cs []*mdiff.Chunk) []any {
	out := make([]any, 0, len(cs))
	for _, c := range cs {
		out = append(out, map[string]any{"ls": c.LStart, "le": c.LEnd, "rs": c.RStart, "re": c.REnd, "edits": editsJ(c.Edits)})
	}
	return out
}

func c13rec(lhs, rhs []int, n int) Ev {
	ev := Ev{"op": "new", "lhs": ints(lhs), "rhs": ints(rhs), "n": n, "big": b2i(len(lhs)*len(rhs) > 40000), "cnew": []any{}, "cctx": []any{}, "cuni": []any{},
		"enew": []any{}, "ectx": []any{}, "euni": []any{}, "pipe": []any{}}
	guard(ev, func() {
		d := mdiff.New(linesOf(lhs), linesOf(rhs))
		ev["cnew"], ev["enew"] = chunksJ(d.Chunks), editsJ(d.Edits)
		d.AddContext(n)
		ev["cctx"], ev["ectx"] = chunksJ(d.Chunks), editsJ(d.Edits)
		d.Unify()
		ev["cuni"], ev["euni"] = chunksJ(d.Chunks), editsJ(d.Edits)
		// other call orders, each on a fresh Diff (the order is a function of the inputs, so a
		// replay makes the same calls).  Unify is only applied to what New or ONE AddContext left
		// behind (see DESIGN.md section 6: AddContext, AddContext, Unify is outside the property).
		m := 1 + (len(lhs)+2*len(rhs)+n)%3
		orders := [][][2]int{ // {0,n} = AddContext(n), {1,0} = Unify
			{{0, n}, {1, 0}, {0, m}},
			{{0, n}, {1, 0}, {0, m}, {1, 0}},
			{{0, n}, {0, m}},
			{{1, 0}, {0, n}, {1, 0}},
			{{0, m}, {1, 0}, {1, 0}, {0, n}, {1, 0}},
		}
		order := orders[(len(lhs)+len(rhs)+n)%len(orders)]
		d2 := mdiff.New(linesOf(lhs), linesOf(rhs))
		pipe := []any{}
		for _, st := range order {
			if st[0] == 0 {
				d2.AddContext(st[1])
			} else {
				d2.Unify()
			}
			pipe = append(pipe, map[string]any{"k": st[0], "n": st[1], "cs": chunksJ(d2.Chunks), "e": editsJ(d2.Edits)})
		}
		ev["pipe"] = pipe
	})
	return ev
}

func replayC13(c *Ctx, h *Hist, ops []Op) {
	for _, op := range ops {
		h.Emit(c13rec(getis(op, "lhs"), getis(op, "rhs"), geti(op, "n")))
	}
}

type c13in struct {
	Lhs  []int `json:"lhs"`
	Rhs  []int `json:"rhs"`
	MaxN int   `json:"maxn"`
}

func c13inputs(c *Ctx) []c13in {
	var out []c13in
	for _, raw := range c.RawPaths {
		var in c13in
		if json.Unmarshal(raw, &in) == nil {
			out = append(out, in)
		}
	}
	return out
}

// gappy pair: two or three separate changes with controlled gaps between them
func gappyPair(rng *rand.Rand) ([]int, []int) {
	var l, r []int
	next := 10
	fresh := func() int { next++; return next }
	common := func(n int, repetitive bool) {
		for ; n > 0; n-- {
			v := fresh()
			if repetitive {
				v = 1 + rng.Intn(2)
			}
			l, r = append(l, v), append(r, v)
		}
	}
	rep := rng.Intn(2) == 0
	common(rng.Intn(6), rep)
	for k := 2 + rng.Intn(3); k > 0; k-- {
		switch rng.Intn(3) {
		case 0:
			for j := 1 + rng.Intn(3); j > 0; j-- {
				l = append(l, fresh())
			}
		case 1:
			for j := 1 + rng.Intn(3); j > 0; j-- {
				r = append(r, fresh())
			}
		default:
			for j := 1 + rng.Intn(2); j > 0; j-- {
				l = append(l, fresh())
			}
			for j := 1 + rng.Intn(3); j > 0; j-- {
				r = append(r, fresh())
			}
		}
		if rep && rng.Intn(3) == 0 {
			// an inserted line equal to its neighbour
			r = append(r, 1+rng.Intn(2))
		}
		common(rng.Intn(13), rep)
	}
	return l, r
}

func runC13(c *Ctx) {
	for _, in := range c13inputs(c) {
		for n := 0; n <= in.MaxN; n++ {
			c.NewHist("tlc-input").Emit(c13rec(in.Lhs, in.Rhs, n))
		}
	}
	// lines whose digests collide; large inputs (a thousand lines and more) with a few
	// changes, duplicated / removed adjacent equal lines, growing runs of one line
	for a := 9001; a <= 9006; a++ {
		for b := 9001; b <= 9006; b++ {
			c.NewHist("collide").Emit(c13rec([]int{1, a, 2}, []int{1, b, 2}, 1))
			c.NewHist("collide").Emit(c13rec([]int{a}, []int{b}, 0))
		}
	}
	for i := 0; i < c.Pick(8, 60); i++ {
		rng := c.Rng("c13-big", i)
		n := 1100 + rng.Intn(500)
		l := make([]int, n)
		for j := range l {
			l[j] = 10 + j
			if i%3 == 1 {
				l[j] = 1 + j%2 // highly repetitive
			}
			if i%3 == 2 {
				l[j] = 5 // one line repeated
			}
		}
		r := append([]int(nil), l...)
		switch rng.Intn(4) {
		case 0: // duplicate one line in place
			p := rng.Intn(n)
			r = append(r[:p+1:p+1], r[p:]...)
		case 1: // remove one line
			p := rng.Intn(n)
			r = append(r[:p:p], r[p+1:]...)
		case 2: // change one line and append one
			r[rng.Intn(n)] = 7
			r = append(r, 8)
		default: // a blank-like line next to an equal one
			p := rng.Intn(n - 1)
			r[p], r[p+1] = 3, 3
			r = append(r[:p+1:p+1], append([]int{3}, r[p+1:]...)...)
		}
		if rng.Intn(2) == 0 {
			l, r = r, l
		}
		c.NewHist("big-input").Emit(c13rec(l, r, []int{0, 3}[rng.Intn(2)]))
	}
	cnt := c.Pick(3000, 100000)
	for i := 0; i < cnt; i++ {
		rng := c.Rng("c13", i)
		var a, b []int
		switch i % 3 {
		case 0:
			a, b = relatedPair(rng, 30, 2+rng.Intn(3))
		case 1:
			a, b = gappyPair(rng)
		default:
			a, b = relatedPair(rng, 16, 2)
		}
		n := rng.Intn(7)
		if rng.Intn(10) == 0 {
			n = 50
		}
		c.NewHist(fmt.Sprintf("random-%d", i%3)).Emit(c13rec(a, b, n))
	}
}
