package main

// X01 (not a listed property): compare, value, mstr.Lines/Split and the rest
// of package slice, against Extras.tla.  One record per call.

import (
	"errors"
	"sort"
	"time"

	"github.com/creachadair/mds/compare"
	"github.com/creachadair/mds/mstr"
	"github.com/creachadair/mds/slice"
	"github.com/creachadair/mds/value"
)

func init() { props["X01"] = &Prop{Run: runX01, Replay: func(c *Ctx, h *Hist, ops []Op) {}} }

func x01ev(f string) Ev {
	return Ev{"op": "new", "f": f, "a": 0, "b": 0, "r": 0, "rb": false, "ba": false, "bb": false, "m": []any{false, 0}, "m0": []any{false, 0},
		"p": []any{true, 0}, "s": []int{}, "ss": [][]int{}, "out": []int{}, "keep": []int{}, "vals": []int{}}
}
func mj(m value.Maybe[int]) []any { v, ok := m.GetOK(); return []any{ok, v} }
func pj(p *int) []any {
	if p == nil {
		return []any{true, 0}
	}
	return []any{false, *p}
}

func runX01(c *Ctx) {
	emit := func(ev Ev, f func()) {
		guard(ev, f)
		c.NewHist(gets(ev, "f")).Emit(ev)
	}
	icmp := func(a, b int) int { return 3 * (a - b) }
	base := time.Date(2024, 2, 29, 12, 0, 0, 0, time.UTC)
	zones := []*time.Location{time.UTC, time.FixedZone("", 5*3600+1800), time.FixedZone("", -8*3600)}
	for a := -3; a <= 3; a++ {
		for b := -3; b <= 3; b++ {
			a, b := a, b
			ev := x01ev("fromless")
			ev["a"], ev["b"] = a, b
			emit(ev, func() { ev["r"] = compare.FromLessFunc(func(x, y int) bool { return x < y })(a, b) })
			ev = x01ev("toless")
			ev["a"], ev["b"] = a, b
			emit(ev, func() { ev["rb"] = compare.ToLessFunc(icmp)(a, b) })
			ev = x01ev("reversed")
			ev["a"], ev["b"] = a, b
			emit(ev, func() { ev["r"] = compare.Reversed(icmp)(a, b) })
			ev = x01ev("time")
			ev["a"], ev["b"] = a, b
			emit(ev, func() {
				ta := base.Add(time.Duration(a) * time.Nanosecond).In(zones[(a+3)%3])
				tb := base.Add(time.Duration(b) * time.Nanosecond).In(zones[(b+4)%3])
				ev["r"] = compare.Time(ta, tb)
			})
			ev = x01ev("cond")
			ev["a"], ev["b"], ev["ba"] = a, b, a < b
			emit(ev, func() { ev["r"] = value.Cond(a < b, a, b) })
		}
	}
	for _, ba := range []bool{false, true} {
		for _, bb := range []bool{false, true} {
			ba, bb := ba, bb
			ev := x01ev("bool")
			ev["ba"], ev["bb"] = ba, bb
			emit(ev, func() { ev["r"] = compare.Bool(ba, bb) })
		}
	}
	for v := -2; v <= 2; v++ {
		v := v
		ev := x01ev("just")
		ev["a"] = v
		emit(ev, func() { ev["m"] = mj(value.Just(v)) })
		for _, m0 := range []value.Maybe[int]{value.Absent[int](), value.Just(7), value.Just(0)} {
			m0 := m0
			ev = x01ev("or")
			ev["m0"], ev["a"] = mj(m0), v
			emit(ev, func() { ev["m"] = mj(m0.Or(v)) })
			ev = x01ev("ptr")
			ev["m0"] = mj(m0)
			emit(ev, func() { ev["p"] = pj(m0.Ptr()) })
		}
		for _, p := range []*int{nil, value.Ptr(v), value.Ptr(0)} {
			p := p
			ev = x01ev("at")
			ev["p"] = pj(p)
			emit(ev, func() { ev["r"] = value.At(p) })
			ev = x01ev("atdefault")
			ev["p"], ev["a"] = pj(p), 9
			emit(ev, func() { ev["r"] = value.AtDefault(p, 9) })
			ev = x01ev("atmaybe")
			ev["p"] = pj(p)
			emit(ev, func() { ev["m"] = mj(value.AtMaybe(p)) })
		}
		for _, failed := range []bool{false, true} {
			failed := failed
			ev = x01ev("check")
			ev["a"], ev["ba"] = v, failed
			emit(ev, func() {
				var err error
				if failed {
					err = errors.New("x")
				}
				ev["m"] = mj(value.Check(v, err))
			})
		}
	}
	ev := x01ev("absent")
	emit(ev, func() { ev["m"] = mj(value.Absent[int]()) })
	// strings over {a, b, newline, comma}, all up to length 5 (6 thorough)
	alpha := []byte("ab\n,")
	var gen func(prefix string, n int)
	gen = func(prefix string, n int) {
		s := prefix
		e1 := x01ev("lines")
		e1["s"] = bytesJ(s)
		emit(e1, func() { e1["ss"] = toksJ(mstr.Lines(s)) })
		e2 := x01ev("split")
		e2["s"], e2["a"] = bytesJ(s), int(',')
		emit(e2, func() { e2["ss"] = toksJ(mstr.Split(s, ",")) })
		if n == 0 {
			return
		}
		for _, ch := range alpha {
			gen(prefix+string([]byte{ch}), n-1)
		}
	}
	gen("", c.Pick(5, 6))
	// integer slices over {1,2,3}, all up to length 6
	var seqs [][]int
	var gs func(p []int, n int)
	gs = func(p []int, n int) {
		seqs = append(seqs, append([]int(nil), p...))
		if n == 0 {
			return
		}
		for v := 1; v <= 3; v++ {
			gs(append(p, v), n-1)
		}
	}
	gs(nil, c.Pick(5, 7))
	for i, s := range seqs {
		s := s
		ev := x01ev("dedup")
		ev["s"] = ints(s)
		emit(ev, func() { ev["out"] = ints(slice.Dedup(append([]int(nil), s...))) })
		ev = x01ev("reverse")
		ev["s"] = ints(s)
		emit(ev, func() { cp := append([]int(nil), s...); slice.Reverse(cp); ev["out"] = ints(cp) })
		ev = x01ev("zero")
		ev["s"] = ints(s)
		emit(ev, func() { cp := append([]int(nil), s...); slice.Zero(cp); ev["out"] = ints(cp) })
		keep := [][]int{{}, {1}, {2, 3}, {1, 2, 3}}[i%4]
		stop := i % 3
		ev = x01ev("select")
		ev["s"], ev["keep"], ev["a"] = ints(s), keep, stop
		emit(ev, func() {
			km := map[int]bool{}
			for _, k := range keep {
				km[k] = true
			}
			out := []int{}
			slice.Select(s, func(v int) bool { return km[v] })(func(v int) bool {
				out = append(out, v)
				return stop == 0 || len(out) < stop
			})
			ev["out"] = out
		})
		// maps: key j+1 -> s[j]
		keys := make([]int, len(s))
		m := map[int]int{}
		for j := range s {
			keys[j] = j + 1
			m[j+1] = s[j]
		}
		ev = x01ev("mapkeys")
		ev["s"] = ints(keys)
		emit(ev, func() { out := slice.MapKeys(m); sort.Ints(out); ev["out"] = ints(out) })
		ev = x01ev("matchingkeys")
		ev["s"], ev["vals"], ev["keep"] = ints(keys), ints(s), keep
		emit(ev, func() {
			km := map[int]bool{}
			for _, k := range keep {
				km[k] = true
			}
			out := []int{}
			for k := range slice.MatchingKeys(m, func(v int) bool { return km[v] }) {
				out = append(out, k)
			}
			sort.Ints(out)
			ev["out"] = out
		})
	}
}
