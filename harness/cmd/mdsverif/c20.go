package main

// C20: mbits and mstr.  "bits" records: the data window (zero / non-zero
// bytes) placed at alignment `align` inside a guarded buffer (place "buf"),
// or flush against an inaccessible page below ("lo") or above ("hi");
// LeadingZeroes / TrailingZeroes results, the image before, after the two
// read-only calls (mid) and after Zero.  "trunc" records: Trunc(s, n).  One
// history carries the whole CompareNatural table over the universe.

import (
	"encoding/json"
	"runtime/debug"
	"sort"
	"syscall"

	"github.com/creachadair/mds/mbits"
	"github.com/creachadair/mds/mstr"
)

func init() { props["C20"] = &Prop{Run: runC20, Replay: replayC20} }

func bytesI(b []byte) []int {
	out := make([]int, len(b))
	for i, x := range b {
		out[i] = int(x)
	}
	return out
}

// dataOf turns a zero/non-zero pattern into byte values (varied non-zero values).
func dataOf(pat []int) []byte {
	out := make([]byte, len(pat))
	for i, p := range pat {
		if p != 0 {
			out[i] = []byte{0x01, 0x80, 0xff, 0x10}[i%4]
		}
	}
	return out
}

var pageSize = syscall.Getpagesize()

// fenced returns a window of n bytes flush against a PROT_NONE page: below it
// (lo: the window starts at a page start) or above it (hi: it ends at a page end).
func fenced(n int, hi bool) (win []byte, img func() []byte, free func()) {
	mem, err := syscall.Mmap(-1, 0, 3*pageSize, syscall.PROT_READ|syscall.PROT_WRITE, syscall.MAP_ANON|syscall.MAP_PRIVATE)
	if err != nil {
		return nil, nil, nil
	}
	mid := mem[pageSize : 2*pageSize]
	for i := range mid {
		mid[i] = 0xAA
	}
	if syscall.Mprotect(mem[:pageSize], syscall.PROT_NONE) != nil || syscall.Mprotect(mem[2*pageSize:], syscall.PROT_NONE) != nil {
		syscall.Munmap(mem)
		return nil, nil, nil
	}
	if hi {
		win = mid[pageSize-n : pageSize : pageSize]
		img = func() []byte { return append([]byte(nil), mid[pageSize-n-16:]...) }
	} else {
		win = mid[0:n:n]
		img = func() []byte { return append([]byte(nil), mid[:n+16]...) }
	}
	return win, img, func() { syscall.Munmap(mem) }
}

func c20bits(pat []int, align int, place string) Ev { return c20bitsD(pat, nil, align, place) }

// c20bitsD: data, when given, holds the exact byte values (pat is then its zero pattern).
func c20bitsD(pat []int, exact []int, align int, place string) Ev {
	if exact != nil {
		pat = make([]int, len(exact))
		for i, b := range exact {
			pat[i] = b2i(b != 0)
		}
	}
	n := len(pat)
	ev := Ev{"op": "new", "kind": "bits", "pat": ints(pat), "align": align, "place": place, "data": []int{}, "n": n, "off": 0,
		"lz": -1, "tz": -1, "zret": -1, "before": []int{}, "mid": []int{}, "after": []int{}, "exact": 0}
	data := dataOf(pat)
	if exact != nil {
		for i, b := range exact {
			data[i] = byte(b)
		}
		ev["exact"] = 1
	}
	ev["data"] = bytesI(data)
	guard(ev, func() {
		var win []byte
		var img func() []byte
		off := 0
		switch place {
		case "buf", "cap":
			raw := make([]byte, n+64)
			base := 0
			for (uintptrOf(raw)+uintptr(base))%8 != 0 {
				base++
			}
			start := base + 8 + align
			for i := range raw {
				raw[i] = 0xAA
			}
			win = raw[start : start+n : start+n]
			if place == "cap" {
				win = raw[start : start+n] // spare capacity behind the window: still outside "the given slice"
			}
			img = func() []byte { return append([]byte(nil), raw...) }
			off = start
		case "lo", "hi":
			w, im, free := fenced(n, place == "hi")
			if w == nil {
				ev["place"] = "unavailable"
				return
			}
			defer free()
			win, img = w, im
			if place == "hi" {
				off = 16
			}
			defer debug.SetPanicOnFault(debug.SetPanicOnFault(true))
		}
		copy(win, data)
		ev["off"] = off
		ev["before"] = bytesI(img())
		ev["lz"] = mbits.LeadingZeroes(win)
		ev["tz"] = mbits.TrailingZeroes(win)
		ev["mid"] = bytesI(img())
		ev["zret"] = mbits.Zero(win)
		ev["after"] = bytesI(img())
	})
	return ev
}

func c20trunc(s string, n int) Ev {
	ev := Ev{"op": "new", "kind": "trunc", "s": bytesJ(s), "n": n, "out": []int{}}
	guard(ev, func() { ev["out"] = bytesJ(mstr.Trunc(s, n)) })
	return ev
}

// c20nat: the whole comparison table.  order 0 computes it row by row; order 1 visits
// the pairs in a scrambled order (the same operand recurs with other calls in between),
// so that a result depending on earlier calls shows up as a wrong table entry.
func c20nat(c *Ctx, h *Hist, u []string, order int) {
	uj := make([][]int, len(u))
	for i, s := range u {
		uj[i] = bytesJ(s)
	}
	h.Emit(Ev{"op": "new", "kind": "natu", "u": uj, "order": order})
	n := len(u)
	tab := make([][]int, n)
	panics := make([]string, n)
	for i := range tab {
		tab[i] = make([]int, n)
	}
	seen := make([][]bool, n)
	for i := range seen {
		seen[i] = make([]bool, n)
	}
	cell := func(i, j int) {
		ev := Ev{}
		guard(ev, func() {
			v := mstr.CompareNatural(u[i], u[j])
			if seen[i][j] && tab[i][j] != v {
				v = 99 // two calls with the same arguments disagree: no table entry is right
			}
			tab[i][j], seen[i][j] = v, true
		})
		if p, _ := ev["panic"].(string); p != "" {
			panics[i] = p
		}
	}
	if order == 0 {
		for i := 0; i < n; i++ {
			for j := 0; j < n; j++ {
				cell(i, j)
			}
		}
	} else if n > 0 {
		// a full-period walk over the n*n pairs: x -> x + step (mod n*n), step coprime to n*n;
		// every third call repeats the left operand of two calls ago with a fresh right operand
		total := n * n
		step := total/2 + 1
		for gcdInt(step, total) != 1 {
			step++
		}
		x := 0
		prev := [2]int{-1, -1}
		for t := 0; t < total; t++ {
			i, j := x/n, x%n
			cell(i, j)
			if t%3 == 2 && prev[0] >= 0 {
				cell(prev[0], j) // recomputed: must agree with its own visit
			}
			if t%3 == 0 {
				prev = [2]int{i, j}
			}
			x = (x + step) % total
		}
	}
	for i := 0; i < n; i++ {
		ev := Ev{"op": "row", "kind": "natrow", "i": i + 1, "row": ints(tab[i]), "panic": panics[i]}
		h.Emit(ev)
	}
	h.Emit(Ev{"op": "end", "kind": "natend"})
}

func gcdInt(a, b int) int {
	for b != 0 {
		a, b = b, a%b
	}
	return a
}

func natUniverse() []string {
	alpha := []byte("019a:/")
	out := []string{""}
	frontier := []string{""}
	for l := 1; l <= 3; l++ {
		var next []string
		for _, p := range frontier {
			for _, ch := range alpha {
				next = append(next, p+string(ch))
			}
		}
		out = append(out, next...)
		frontier = next
	}
	sort.Strings(out)
	return out
}

// natUniverse2: digits next to bytes that differ from digits only in the high bit
// (0xB0..0xB9), a letter and a high separator
func natUniverse2() []string {
	alpha := []byte{'0', '1', 0xB0, 0xB1, 0xB9, 'a'}
	out := []string{""}
	frontier := []string{""}
	for l := 1; l <= 3; l++ {
		var next []string
		for _, p := range frontier {
			for _, ch := range alpha {
				next = append(next, p+string([]byte{ch}))
			}
		}
		out = append(out, next...)
		frontier = next
	}
	sort.Strings(out)
	return out
}

func replayC20(c *Ctx, h *Hist, ops []Op) {
	if len(ops) > 0 && gets(ops[0], "kind") == "natu" {
		c20nat(c, h, strsOfAny(ops[0]["u"]), geti(ops[0], "order"))
		return
	}
	for _, op := range ops {
		switch gets(op, "kind") {
		case "bits":
			if geti(op, "exact") == 1 {
				h.Emit(c20bitsD(nil, getis(op, "data"), geti(op, "align"), gets(op, "place")))
			} else {
				h.Emit(c20bits(getis(op, "pat"), geti(op, "align"), gets(op, "place")))
			}
		case "trunc":
			h.Emit(c20trunc(strOf(getis(op, "s")), geti(op, "n")))
		}
	}
}

func runC20(c *Ctx) {
	for _, raw := range c.RawPaths {
		var in struct {
			Pat    []int  `json:"pat"`
			Truncs *[]int `json:"truncs"`
		}
		if json.Unmarshal(raw, &in) != nil {
			continue
		}
		if in.Truncs != nil {
			s := strOf(*in.Truncs)
			for n := 0; n <= len(s)+1; n++ {
				c.NewHist("tlc-trunc").Emit(c20trunc(s, n))
			}
			continue
		}
		for align := 0; align < 8; align++ {
			c.NewHist("tlc-bits").Emit(c20bits(in.Pat, align, "buf"))
			c.NewHist("tlc-bits").Emit(c20bits(in.Pat, align, "cap"))
		}
		c.NewHist("tlc-bits-fenced").Emit(c20bits(in.Pat, 0, "lo"))
		c.NewHist("tlc-bits-fenced").Emit(c20bits(in.Pat, 0, "hi"))
	}
	c20nat(c, c.NewHist("natural-table"), natUniverse(), 0)
	c20nat(c, c.NewHist("natural-table-highbytes"), natUniverse2(), 0)
	c20nat(c, c.NewHist("natural-table-scrambled"), natUniverse(), 1)
	// words that cancel or combine arithmetically: w and -w, w and ^w, equal words,
	// single bits at the word ends - in adjacent 8-byte words at every block offset
	for i := 0; i < c.Pick(300, 6000); i++ {
		rng := c.Rng("c20-words", i)
		nw := 2 + rng.Intn(5)
		data := make([]int, 8*nw+rng.Intn(8))
		w := rng.Uint64()
		switch rng.Intn(6) {
		case 0:
			w = 1 << uint(rng.Intn(64))
		case 1:
			w = 0x80 << uint(8*rng.Intn(8))
		case 2:
			w = uint64(rng.Intn(256)) << uint(8*rng.Intn(8))
		}
		other := map[int]uint64{0: -w, 1: ^w, 2: w, 3: w << 1, 4: w >> 1}[rng.Intn(5)]
		at := rng.Intn(nw - 1)
		put := func(k int, v uint64) {
			for b := 0; b < 8; b++ {
				data[8*k+b] = int(byte(v >> uint(8*b)))
			}
		}
		put(at, w)
		put(at+1, other)
		if rng.Intn(2) == 0 { // mirrored for the trailing count
			put(nw-1-at, w)
			if nw-2-at >= 0 {
				put(nw-2-at, other)
			}
		}
		c.NewHist("cancelling-words").Emit(c20bitsD(nil, data, rng.Intn(8), []string{"buf", "cap", "lo", "hi"}[rng.Intn(4)]))
	}
	// seeded: longer buffers, random patterns; longer strings for Trunc
	n := c.Pick(1500, 60000)
	for i := 0; i < n; i++ {
		rng := c.Rng("c20", i)
		if i%2 == 0 {
			ln := rng.Intn(80)
			pat := make([]int, ln)
			dens := []int{0, 2, 10, 50}[rng.Intn(4)]
			for j := range pat {
				pat[j] = b2i(rng.Intn(100) < dens)
			}
			c.NewHist("random-bits").Emit(c20bits(pat, rng.Intn(8), []string{"buf", "cap", "lo", "hi"}[rng.Intn(4)]))
		} else {
			units := []string{"a", "b", "é", "€", "😀", "\x80", "\xc3", "\xf0\x9f", "\xff", "ß", "語"}
			s := ""
			for k := rng.Intn(8); k > 0; k-- {
				s += units[rng.Intn(len(units))]
			}
			c.NewHist("random-trunc").Emit(c20trunc(s, rng.Intn(len(s)+3)))
		}
	}
}
