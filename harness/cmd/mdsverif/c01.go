package main

// C01 / C02: stree.Tree.  A key is {C, G}: class C (compared) and tag G
// (ignored by the comparator).  Events: op ∈ new|add|replace|remove|clear|clone
// on tree t (clone creates t2); beta, rev = configuration; k = key argument;
// keys = arguments of New; res = boolean result; observations of the tree
// operated on (the clone, for clone): len, empty, height (edges, -1 if empty;
// measured through Root/Left/Right cursors), gets = [[c, found, repC, repG,
// comparator calls]], and when full = 1: ino (Inorder), min, max, pre
// (Inorder stopped after `stop` keys), afters = [[c, stop, keys seen]].

import (
	"math"
	"math/rand"

	"github.com/creachadair/mds/stree"
)

func init() {
	props["C01"] = &Prop{Run: runC01, Replay: replayC01}
	props["C02"] = &Prop{Run: runC02, Replay: replayC01}
}

type sk struct{ C, G int }

type c01state struct {
	trees map[int]*stree.Tree[sk]
	beta  map[int]int
	rev   map[int]bool
	cmps  int
	mag   int // comparator result style: 0 = -1/0/1, 1 = 5*diff, 2 = diff<<32, 3 = diff<<31, 4 = MinInt/MaxInt
}

func (st *c01state) cmp(rev bool) func(a, b sk) int {
	return func(a, b sk) int {
		st.cmps++
		diff := a.C - b.C
		if rev {
			diff = -diff
		}
		switch st.mag { // any magnitude is a legal comparator result
		case 1:
			return 5 * diff
		case 2:
			return diff << 32 // low 32 bits all zero
		case 3:
			return diff << 31 // bit 31 set for odd differences
		case 4:
			if diff < 0 {
				return math.MinInt
			} else if diff > 0 {
				return math.MaxInt
			}
			return 0
		}
		if diff < 0 {
			return -1
		} else if diff > 0 {
			return 1
		}
		return 0
	}
}

func keyOf(v any) sk {
	a := v.([]any)
	return sk{int(a[0].(float64)), int(a[1].(float64))}
}

func kj(k sk) [2]int { return [2]int{k.C, k.G} }

func treeHeight(t *stree.Tree[sk]) int {
	var rec func(c *stree.Cursor[sk]) int
	rec = func(c *stree.Cursor[sk]) int {
		if !c.Valid() {
			return -1
		}
		l := rec(c.Clone().Left())
		r := rec(c.Clone().Right())
		if l > r {
			return l + 1
		}
		return r + 1
	}
	return rec(t.Root())
}

// obs parameters: full, stop, gc (classes to Get), ac ([[class, stop]] for InorderAfter)
func c01exec(c *Ctx, st *c01state, op Op, rng *rand.Rand, light bool) Ev {
	name := gets(op, "op")
	t := geti(op, "t")
	if t == 0 {
		t = 1
	}
	t2 := geti(op, "t2")
	ev := Ev{"op": name, "t": t, "t2": t2, "beta": 0, "rev": false, "k": [2]int{0, 0}, "keys": [][2]int{},
		"res": true, "len": 0, "empty": true, "height": -1, "mag": st.mag, "full": 0, "ino": [][2]int{}, "min": [2]int{0, 0},
		"max": [2]int{0, 0}, "stop": 0, "pre": [][2]int{}, "gets": [][5]int{}, "afters": []any{}, "others": [][7]int{}, "blind": 0}
	guard(ev, func() {
		var k sk
		if has(op, "k") {
			k = keyOf(op["k"])
		}
		ev["k"] = kj(k)
		switch name {
		case "new":
			beta, rev := geti(op, "beta"), getb(op, "rev")
			var keys []sk
			for _, x := range getany(op, "keys") {
				keys = append(keys, keyOf(x))
			}
			kk := make([][2]int, len(keys))
			for i, x := range keys {
				kk[i] = kj(x)
			}
			ev["keys"] = kk
			st.mag = geti(op, "mag")
			ev["mag"] = st.mag
			st.trees = map[int]*stree.Tree[sk]{}
			st.beta = map[int]int{1: beta}
			st.rev = map[int]bool{1: rev}
			st.trees[1] = stree.New(beta, st.cmp(rev), keys...)
			t = 1
			ev["t"] = 1
		case "add":
			ev["res"] = st.trees[t].Add(k)
		case "replace":
			ev["res"] = st.trees[t].Replace(k)
		case "remove":
			ev["res"] = st.trees[t].Remove(k)
		case "clear":
			st.trees[t].Clear()
		case "clone":
			st.trees[t2] = st.trees[t].Clone()
			st.beta[t2], st.rev[t2] = st.beta[t], st.rev[t]
		default:
			die("C01: unknown op %q", name)
		}
		o := t
		if name == "clone" {
			o = t2
		}
		tr := st.trees[o]
		ev["beta"], ev["rev"] = st.beta[o], st.rev[o]
		n := tr.Len()
		ev["len"] = n
		if geti(op, "blind") == 1 && name != "new" && name != "clone" {
			// blind call: only the call's own result and the Len field are read before the next call
			// (the tree must not depend on being walked or searched to put itself in order)
			ev["blind"] = 1
			ev["empty"] = n == 0
			return
		}
		ev["empty"] = tr.IsEmpty()
		ev["height"] = treeHeight(tr)
		// the trees this call did not touch (an original and its clones are independent):
		// their Len and height must still be what their own history determines
		others := [][7]int{}
		for id := 1; id <= len(st.trees)+1; id++ {
			if ot, ok := st.trees[id]; ok && id != o && (!light || ot.Len() < 600) {
				mn, mx := kj(ot.Min()), kj(ot.Max())
				others = append(others, [7]int{id, treeHeight(ot), ot.Len(), mn[0], mn[1], mx[0], mx[1]})
			}
		}
		ev["others"] = others
		// Get probes
		var gc []int
		if has(op, "gets") {
			for _, g := range getany(op, "gets") {
				gc = append(gc, int(g.([]any)[0].(float64)))
			}
		} else if !light {
			gc = []int{k.C, k.C + 1, k.C - 1}
			if rng != nil {
				gc = append(gc, rng.Intn(20))
				// vary what was looked up last before the next call: nothing, or one key only
				switch rng.Intn(5) {
				case 0:
					gc = []int{}
				case 1:
					gc = []int{rng.Intn(20)}
				}
			}
		}
		gl := make([][5]int, 0, len(gc))
		for _, cc := range gc {
			st.cmps = 0
			rk, ok := tr.Get(sk{cc, -7})
			gl = append(gl, [5]int{cc, b2i(ok), rk.C, rk.G, st.cmps})
		}
		ev["gets"] = gl
		full := 0
		if has(op, "full") {
			full = geti(op, "full")
		} else if !light && (rng == nil || n <= 12 || name == "new" || rng.Intn(8) == 0) {
			full = 1
		}
		if name == "new" {
			full = 1
		}
		ev["full"] = full
		if full == 0 {
			return
		}
		var ino [][2]int
		tr.Inorder(func(x sk) bool { ino = append(ino, kj(x)); return true })
		if ino == nil {
			ino = [][2]int{}
		}
		ev["ino"] = ino
		ev["min"], ev["max"] = kj(tr.Min()), kj(tr.Max())
		stop := 0
		if has(op, "stop") {
			stop = geti(op, "stop")
		} else if rng != nil && rng.Intn(2) == 0 {
			stop = 1 + rng.Intn(n+1)
		} else if rng == nil && n > 1 {
			stop = n / 2
		}
		ev["stop"] = stop
		pre := [][2]int{}
		tr.Inorder(func(x sk) bool {
			pre = append(pre, kj(x)) // record every call, even after asking to stop
			return stop == 0 || len(pre) < stop
		})
		ev["pre"] = pre
		type ac struct{ c, stop int }
		var acs []ac
		if has(op, "afters") {
			for _, a := range getany(op, "afters") {
				aa := a.([]any)
				acs = append(acs, ac{int(aa[0].(float64)), int(aa[1].(float64))})
			}
		} else {
			lo, hi := tr.Min().C, tr.Max().C
			if lo > hi {
				lo, hi = hi, lo
			}
			acs = []ac{{k.C, 0}, {lo - 1, 0}, {hi + 1, 0}, {k.C + 1, 0}}
			if rng != nil {
				acs = append(acs, ac{lo + rng.Intn(hi-lo+2), 1 + rng.Intn(n+1)}, ac{lo + rng.Intn(hi-lo+2), 1 + rng.Intn(n+1)})
			} else {
				acs = append(acs, ac{lo, 2}, ac{k.C, 1}, ac{(lo + hi) / 2, 3})
			}
		}
		afters := make([]any, 0, len(acs))
		for _, a := range acs {
			seen := [][2]int{}
			tr.InorderAfter(sk{a.c, -9})(func(x sk) bool {
				seen = append(seen, kj(x))
				return a.stop == 0 || len(seen) < a.stop
			})
			afters = append(afters, []any{a.c, a.stop, seen})
		}
		ev["afters"] = afters
	})
	return ev
}

func replayC01(c *Ctx, h *Hist, ops []Op) {
	if len(ops) > 0 && gets(ops[0], "keytype") == "slice" {
		c01sliceRun(h, ops)
		return
	}
	st := &c01state{}
	for i, op := range ops {
		if i == 0 && gets(op, "op") != "new" {
			die("C01: history must start with new")
		}
		h.Emit(c01exec(c, st, op, nil, false))
	}
}

// replay of a TLC path: full observations only on the last two steps (the
// prefix was observed by the paths that end there).
func replayPathC01(c *Ctx, h *Hist, ops []Op) {
	st := &c01state{}
	for i, op := range ops {
		h.Emit(c01exec(c, st, op, nil, i < len(ops)-2))
	}
}

var c01betas = []int{0, 1, 100, 250, 333, 500, 750, 900, 999, 1000}

var c01kindsOverride []string // when set, c01gen produces these kinds only

func c01gen(c *Ctx, label string, nh int, maxKeys int) {
	kinds := []string{"uniform8", "uniform16", "uniform64", "ascending", "descending", "zigzag", "filldrain",
		"twochild", "dupheavy", "bulknew", "clonefork", "asc-remove", "restart"}
	if c01kindsOverride != nil {
		kinds = c01kindsOverride
	}
	for i := 0; i < nh; i++ {
		c.genGuard(func() {
			rng := c.Rng(label, i)
			kind := kinds[i%len(kinds)]
			h := c.NewHist(kind)
			st := &c01state{}
			beta := c01betas[rng.Intn(len(c01betas))]
			if rng.Intn(4) == 0 {
				beta = rng.Intn(1001)
			}
			rev := rng.Intn(4) == 0
			tag := 0
			fresh := func(cl int) [2]int { tag++; return [2]int{cl, tag} }
			// initial keys
			var keys [][2]int
			if kind == "bulknew" || rng.Intn(3) == 0 {
				nk := rng.Intn(24)
				for j := 0; j < nk; j++ {
					keys = append(keys, fresh(rng.Intn(16)))
				}
				if rng.Intn(3) == 0 { // already sorted input with duplicates
					for a := 1; a < len(keys); a++ {
						for b := a; b > 0 && keys[b][0] < keys[b-1][0]; b-- {
							keys[b], keys[b-1] = keys[b-1], keys[b]
						}
					}
				}
			}
			if kind == "restart" {
				// a tree built big (by New or by Adds), emptied by Clear or by removing every key, and
				// then grown again in sorted order: whatever the big tree allowed must not carry over
				keys = nil
				for j, nk := 0, 60+rng.Intn(160); j < nk; j++ {
					keys = append(keys, fresh(j))
				}
				if rng.Intn(4) != 0 { // factors where a sorted run soon exceeds the bound unless the tree is rebuilt
					beta = []int{0, 250, 400, 500, 600, 750}[rng.Intn(6)]
				}
			}
			do := func(op Op) {
				if rng.Intn(6) == 0 {
					op["blind"] = 1
				}
				h.Emit(c01exec(c, st, toAnyOp(op), rng, false))
			}
			if kind == "restart" && rng.Intn(2) == 0 {
				do(Op{"op": "new", "beta": beta, "rev": rev, "keys": [][2]int{}, "mag": 0})
				for _, k := range keys {
					h.Emit(c01exec(c, st, toAnyOp(Op{"op": "add", "t": 1, "k": k, "full": 0}), rng, true))
				}
			} else {
				do(Op{"op": "new", "beta": beta, "rev": rev, "keys": keys, "mag": []int{0, 0, 1, 2, 3, 4}[rng.Intn(6)]})
			}
			if kind == "restart" {
				for round := 0; round < 2; round++ {
					if rng.Intn(2) == 0 {
						do(Op{"op": "clear", "t": 1})
					} else {
						for _, k := range keys {
							h.Emit(c01exec(c, st, toAnyOp(Op{"op": "remove", "t": 1, "k": [2]int{k[0], 0}, "full": 0}), rng, true))
						}
					}
					keys = nil
					up := rng.Intn(2) == 0
					for j, nk := 0, 12+rng.Intn(40); j < nk; j++ {
						cl := j
						if !up {
							cl = 500 - j
						}
						k := fresh(cl)
						keys = append(keys, k)
						if rng.Intn(2) == 0 {
							do(Op{"op": "add", "t": 1, "k": k})
						} else {
							do(Op{"op": "replace", "t": 1, "k": k})
						}
					}
				}
				return
			}
			nops := 30 + rng.Intn(c.Pick(90, 200))
			ntrees := 1
			for j := 0; j < nops; j++ {
				t := 1
				if ntrees > 1 {
					t = 1 + rng.Intn(ntrees)
				}
				r := rng.Intn(100)
				switch kind {
				case "uniform8", "uniform16", "uniform64":
					m := map[string]int{"uniform8": 8, "uniform16": 16, "uniform64": 64}[kind]
					cl := rng.Intn(m)
					if tr := st.trees[t]; r >= 95 && tr != nil && tr.Len() >= 3 {
						// a key looked up last; a different key removed with no lookup after it; the first key
						// replaced and looked up: must show the replacement
						var present []int
						tr.Inorder(func(k sk) bool { present = append(present, k.C); return true })
						a, b := present[rng.Intn(len(present))], present[rng.Intn(len(present))]
						ga := []any{[]any{float64(a)}}
						do(Op{"op": "replace", "t": t, "k": fresh(a), "gets": ga})
						do(Op{"op": "remove", "t": t, "k": [2]int{b, 0}, "gets": []any{}})
						do(Op{"op": "replace", "t": t, "k": fresh(a), "gets": ga})
						continue
					}
					switch {
					case r < 40:
						do(Op{"op": "add", "t": t, "k": fresh(cl)})
					case r < 55:
						do(Op{"op": "replace", "t": t, "k": fresh(cl)})
					case r < 97:
						do(Op{"op": "remove", "t": t, "k": [2]int{cl, 0}})
					default:
						do(Op{"op": "clear", "t": t})
					}
				case "ascending":
					do(Op{"op": "add", "t": t, "k": fresh(j)})
				case "descending":
					do(Op{"op": "add", "t": t, "k": fresh(1000 - j)})
				case "zigzag":
					if j%2 == 0 {
						do(Op{"op": "add", "t": t, "k": fresh(j)})
					} else {
						do(Op{"op": "add", "t": t, "k": fresh(2000 - j)})
					}
				case "asc-remove":
					if j%5 == 4 {
						do(Op{"op": "remove", "t": t, "k": [2]int{rng.Intn(j + 1), 0}})
					} else {
						do(Op{"op": "add", "t": t, "k": fresh(j)})
					}
				case "filldrain":
					phase := (j / 20) % 2
					if phase == 0 {
						do(Op{"op": "add", "t": t, "k": fresh(rng.Intn(40))})
					} else {
						// drain in order (forces whole-tree rebuilds), to empty
						mn := st.trees[t].Min()
						if r < 30 {
							mn = st.trees[t].Max()
						}
						do(Op{"op": "remove", "t": t, "k": [2]int{mn.C, 0}})
					}
				case "twochild":
					if st.trees[t].Len() < 10 || r < 40 {
						do(Op{"op": "add", "t": t, "k": fresh(rng.Intn(48))})
					} else {
						// remove a node that has two children, then look at its successor
						var cands []int
						var walk func(cu *stree.Cursor[sk])
						walk = func(cu *stree.Cursor[sk]) {
							if !cu.Valid() {
								return
							}
							if cu.HasLeft() && cu.HasRight() {
								cands = append(cands, cu.Key().C)
							}
							walk(cu.Clone().Left())
							walk(cu.Clone().Right())
						}
						walk(st.trees[t].Root())
						if len(cands) == 0 {
							do(Op{"op": "add", "t": t, "k": fresh(rng.Intn(48))})
						} else {
							do(Op{"op": "remove", "t": t, "k": [2]int{cands[rng.Intn(len(cands))], 0}})
						}
					}
				case "dupheavy":
					cl := rng.Intn(6)
					if r < 45 {
						do(Op{"op": "add", "t": t, "k": fresh(cl)})
					} else if r < 85 {
						do(Op{"op": "replace", "t": t, "k": fresh(cl)})
					} else {
						do(Op{"op": "remove", "t": t, "k": [2]int{cl, 0}})
					}
				case "bulknew":
					cl := rng.Intn(20)
					if r < 50 {
						do(Op{"op": "remove", "t": t, "k": [2]int{cl, 0}})
					} else {
						do(Op{"op": "add", "t": t, "k": fresh(cl)})
					}
				case "clonefork":
					if ntrees < 3 && r < 8 {
						ntrees++
						do(Op{"op": "clone", "t": t, "t2": ntrees})
						// right after the fork: the smallest and the largest key of one side are replaced by
						// equivalent ones, removed, and undercut / topped; the other side must not notice
						if tr := st.trees[t]; tr != nil && tr.Len() > 0 {
							mn, mx := tr.Min(), tr.Max()
							do(Op{"op": "replace", "t": t, "k": fresh(mn.C)})
							do(Op{"op": "replace", "t": t, "k": fresh(mx.C)})
							if rng.Intn(2) == 0 {
								do(Op{"op": "remove", "t": t, "k": [2]int{mn.C, 0}})
								do(Op{"op": "add", "t": t, "k": fresh(mn.C - 1)})
							} else {
								do(Op{"op": "remove", "t": ntrees, "k": [2]int{mx.C, 0}})
								do(Op{"op": "add", "t": ntrees, "k": fresh(mx.C + 1)})
							}
						}
					} else if r < 50 {
						do(Op{"op": "add", "t": t, "k": fresh(rng.Intn(24))})
					} else if r < 65 {
						do(Op{"op": "replace", "t": t, "k": fresh(rng.Intn(24))})
					} else if r < 98 {
						do(Op{"op": "remove", "t": t, "k": [2]int{rng.Intn(24), 0}})
					} else {
						do(Op{"op": "clear", "t": t})
					}
				}
			}
		})
	}
}

// toAnyOp round-trips typed literals ([2]int, [][2]int) to the JSON-decoded
// shapes that exec expects.
func toAnyOp(op Op) Op {
	out := Op{}
	for k, v := range op {
		switch x := v.(type) {
		case [2]int:
			out[k] = []any{float64(x[0]), float64(x[1])}
		case [][2]int:
			l := make([]any, len(x))
			for i, y := range x {
				l[i] = []any{float64(y[0]), float64(y[1])}
			}
			out[k] = l
		default:
			out[k] = v
		}
	}
	return out
}

func runC01(c *Ctx) {
	for _, p := range c.Paths {
		replayPathC01(c, c.NewHist("tlc-path"), p)
	}
	c01gen(c, "c01", c.Pick(192, 3000), 0)
	c01kindsOverride = []string{"restart"}
	c01gen(c, "c01-restart", c.Pick(16, 200), 0)
	c01kindsOverride = nil
	c01sliceKeys(c)
	c01deepClone(c)
}

// c01deepClone: a degenerate tree (beta = 1000) hundreds (thorough: thousands) of
// levels deep with left children near the bottom, cloned, then both sides changed there.
func c01deepClone(c *Ctx) {
	for i := 0; i < c.Pick(2, 4); i++ {
		rng := c.Rng("c01-deep", i)
		h := c.NewHist("deep-clone")
		st := &c01state{}
		depth := 300 + rng.Intn(200)
		if c.Thorough() && i >= 2 {
			depth = 4200 + rng.Intn(600)
		}
		do := func(op Op, light bool) { h.Emit(c01exec(c, st, toAnyOp(op), nil, light)) }
		do(Op{"op": "new", "beta": 1000, "rev": false, "keys": [][2]int{}}, true)
		tag := 0
		add := func(t, cl int, light bool) {
			tag++
			do(Op{"op": "add", "t": t, "k": [2]int{cl, tag}, "full": 0}, light)
		}
		for j := 0; j < depth; j++ {
			add(1, 10*j, true)
		}
		base := 10 * depth
		for _, d := range []int{50, 20, 80, 10, 30, 70, 90} { // bushy bottom with left children
			add(1, base+d, true)
		}
		do(Op{"op": "clone", "t": 1, "t2": 2}, true)
		for _, d := range []int{15, 25, 75} {
			add(1, base+d, true)
		}
		for _, d := range []int{5, 35, 85} {
			add(2, base+d, true)
		}
		do(Op{"op": "remove", "t": 2, "k": [2]int{base + 20, 0}, "full": 0}, true)
		do(Op{"op": "replace", "t": 1, "k": [2]int{base + 30, 999}, "full": 0}, true)
		// full look at both trees
		do(Op{"op": "add", "t": 1, "k": [2]int{base + 30, 1000}, "full": 1, "stop": 3}, false)
		do(Op{"op": "add", "t": 2, "k": [2]int{base + 30, 1001}, "full": 1, "stop": 3}, false)
	}
}

// c01sliceKeys: the same tree over a key type that is not comparable with ==
// (a slice), and over float keys where -0 and +0 are equivalent under the
// comparator but distinguishable: the stored representative must be the latest.
func c01sliceKeys(c *Ctx) {
	for i := 0; i < c.Pick(40, 800); i++ {
		rng := c.Rng("c01-slicekeys", i)
		beta := c01betas[rng.Intn(len(c01betas))]
		ops := []Op{{"op": "new", "beta": beta, "k": []any{0.0, 0.0}}}
		for j := 0; j < 40; j++ {
			ops = append(ops, Op{"op": []string{"add", "replace", "replace", "remove"}[rng.Intn(4)], "k": []any{float64(rng.Intn(8)), float64(j + 1)}})
		}
		c.genGuard(func() { c01sliceRun(c.NewHist("slice-keys"), ops) })
	}
}

func c01sliceRun(h *Hist, ops []Op) {
	beta := geti(ops[0], "beta")
	t := stree.New(beta, func(a, b []int) int { return a[0] - b[0] })
	emit := func(name string, k [2]int, res bool, pan string) {
		ino := [][2]int{}
		t.Inorder(func(x []int) bool { ino = append(ino, [2]int{x[0], x[1]}); return true })
		gl := [][5]int{}
		for _, cc := range []int{k[0], k[0] + 1} {
			if rk, ok := t.Get([]int{cc, -7}); ok {
				gl = append(gl, [5]int{cc, 1, rk[0], rk[1], 0})
			} else {
				gl = append(gl, [5]int{cc, 0, 0, 0, 0})
			}
		}
		mn, mx := [2]int{0, 0}, [2]int{0, 0}
		if len(ino) > 0 {
			mn, mx = ino[0], ino[len(ino)-1]
		}
		h.Emit(Ev{"op": name, "t": 1, "t2": 0, "beta": beta, "rev": false, "k": k, "keys": [][2]int{}, "res": res, "len": t.Len(),
			"empty": t.IsEmpty(), "height": -2, "mag": 1, "full": 1, "ino": ino, "min": mn, "max": mx, "stop": 0, "pre": ino,
			"gets": gl, "afters": []any{}, "others": [][7]int{}, "blind": 0, "panic": pan, "keytype": "slice"})
	}
	emit("new", [2]int{0, 0}, true, "")
	for _, op := range ops[1:] {
		kk := keyOf(op["k"])
		k := [2]int{kk.C, kk.G}
		name := gets(op, "op")
		ev := Ev{}
		var res bool
		guard(ev, func() {
			switch name {
			case "add":
				res = t.Add([]int{k[0], k[1]})
			case "replace":
				res = t.Replace([]int{k[0], k[1]})
			default:
				res = t.Remove([]int{k[0], k[1]})
			}
		})
		pan, _ := ev["panic"].(string)
		emit(name, k, res, pan)
		if pan != "" {
			return
		}
	}
}

// C02: the same events; more weight on adversarial insertion orders with
// deep trees (loose beta) and many keys.
func runC02(c *Ctx) {
	for _, p := range c.Paths {
		replayPathC01(c, c.NewHist("tlc-path"), p)
	}
	c01gen(c, "c02", c.Pick(96, 3000), 0)
	c01kindsOverride = []string{"restart", "clonefork", "clonefork"}
	c01gen(c, "c02-restart", c.Pick(72, 900), 0)
	c01kindsOverride = nil
	// thousands of keys in adversarial order at strict balance factors
	for i := 0; i < c.Pick(2, 8); i++ {
		rng := c.Rng("c02-long", i)
		h := c.NewHist("adv-long")
		st := &c01state{}
		beta := []int{0, 0, 100, 250}[rng.Intn(4)]
		n := 2600 + rng.Intn(c.Pick(700, 4000))
		do := func(op Op) { h.Emit(c01exec(c, st, toAnyOp(op), rng, true)) }
		do(Op{"op": "new", "beta": beta, "rev": false, "keys": [][2]int{}})
		for j := 0; j < n; j++ {
			cl := j
			if i%2 == 1 {
				cl = 100000 - j
			}
			do(Op{"op": "add", "t": 1, "k": [2]int{cl, j}, "full": 0})
		}
	}
	pats := []string{"ascending", "descending", "zigzag", "asc-remove", "inside-out", "random"}
	nh := c.Pick(24, 240)
	for i := 0; i < nh; i++ {
		rng := c.Rng("c02-adv", i)
		pat := pats[i%len(pats)]
		h := c.NewHist("adv-" + pat)
		st := &c01state{}
		beta := []int{0, 100, 250, 400, 500, 600, 750, 800, 900}[rng.Intn(9)]
		if rng.Intn(5) == 0 {
			beta = rng.Intn(950)
		}
		n := 60 + rng.Intn(c.Pick(240, 540))
		tag := 0
		do := func(op Op) { h.Emit(c01exec(c, st, toAnyOp(op), rng, false)) }
		do(Op{"op": "new", "beta": beta, "rev": false, "keys": [][2]int{}})
		for j := 0; j < n; j++ {
			tag++
			var cl int
			switch pat {
			case "ascending":
				cl = j
			case "descending":
				cl = 5000 - j
			case "zigzag":
				if j%2 == 0 {
					cl = j
				} else {
					cl = 5000 - j
				}
			case "inside-out":
				if j%2 == 0 {
					cl = 2500 + j
				} else {
					cl = 2500 - j
				}
			case "asc-remove":
				cl = j
				if j%7 == 6 {
					do(Op{"op": "remove", "t": 1, "k": [2]int{rng.Intn(j), 0}, "full": 0})
				}
			default:
				cl = rng.Intn(5000)
			}
			do(Op{"op": "add", "t": 1, "k": [2]int{cl, tag}, "full": b2i(j == n-1)})
		}
		// drain part of it: removals must keep the bound as well
		m := rng.Intn(n)
		for j := 0; j < m; j++ {
			mn := st.trees[1].Min()
			if rng.Intn(3) == 0 {
				mn = st.trees[1].Max()
			}
			do(Op{"op": "remove", "t": 1, "k": [2]int{mn.C, 0}, "full": 0})
		}
	}
}
