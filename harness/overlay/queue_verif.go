//go:build verif

package queue

// VerifState exposes the ring indices for coverage measurement by /verif.
// Injected with `go build -overlay`; not part of the repository.
func (q *Queue[T]) VerifState() (head, n, size int) { return q.head, q.n, len(q.vs) }
