//go:build verif

package distinct

import (
	"math"
	"math/bits"
	"math/rand/v2"

	"github.com/creachadair/mds/mapset"
)

// Hooks for /verif (injected with `go build -overlay`, not part of the
// repository): a constructor taking the random source, and read access to
// the sampling state.

// VerifNewCounter is NewCounter with a caller-supplied random source.
func VerifNewCounter[T comparable](size int, src rand.Source) *Counter[T] {
	return &Counter[T]{buf: make(mapset.Set[T]), cap: size, p: math.MaxUint64, rng: src}
}

// VerifK reports the number of halvings applied to the keep probability.
func (c *Counter[T]) VerifK() int { return bits.LeadingZeros64(c.p) }

// VerifBuf returns the buffered values.
func (c *Counter[T]) VerifBuf() []T { return c.buf.Slice() }
