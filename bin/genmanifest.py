#!/usr/bin/env python3
"""Regenerate MANIFEST.json from bin/manifest_data.py (single source of truth)."""
import json, os, sys
sys.path.insert(0, os.path.dirname(os.path.abspath(__file__)))
import manifest_data as M
ids = [json.loads(l)['id'] for l in open('/verif/properties.jsonl')]
checks = []
for pid in ids:
    if pid not in M.CHECKS:
        continue
    c = M.CHECKS[pid]
    checks.append(dict(
        property_id=pid,
        quick_cmd='bin/check %s quick' % pid,
        thorough_cmd='bin/check %s thorough' % pid,
        evidence_file='/verif/evidence/%s.json' % pid,
        replay_cmd_template='bin/check %s --replay {path}' % pid,
        engine='tlc-trace',
        level_claimed=dict(category='model_checking', text=c['text'], design_ref=c['ref']),
        level_note=c['note'],
        technique=c['technique']))
na = [dict(property_id=p, reason=M.NA.get(p, 'check not built yet (work in progress); not claimed'))
      for p in ids if p not in M.CHECKS]
man = dict(version=1, setup_cmd='bin/setup', hooks=M.HOOKS, engines=M.ENGINES, checks=checks,
           not_applicable=na, notes=M.NOTES)
json.dump(man, open('/verif/MANIFEST.json', 'w'), indent=1)
print('checks:', len(checks), 'not_applicable:', len(na))
