"""Per-property configuration and the generic check flow."""
import json, os, shutil, subprocess, sys, time
import vlib
from vlib import log, MachineryError

MAX_CONFIRM = 3   # rejected histories confirmed individually (all are attributed)

PROPS = {}


def T(tier, q, t):
    return t if tier == 'thorough' else q


# --------------------------------------------------------------------------
# generic flow for properties decided by trace validation of recorded histories

def gather_rejects(work, results, tag):
    """Copy every rejected history into its own file; returns list of dicts."""
    out = []
    d = work.sub('rejects-' + tag)
    for r in results:
        for (line, h, info) in r['rejects']:
            ev = vlib.history_events(r['path'], h)
            p = os.path.join(d, 'h%d.ndjson' % h)
            with open(p, 'w') as f:
                f.write('\n'.join(ev) + '\n')
            out.append(dict(h=h, line=line, shard=r['path'], file=p, events=ev, info=info))
    return out


def attribute_batch(work, P, rejects):
    """Known-finding attribution: validate the rejected histories against the
    as-is (implementation-shaped, defect switches on) specification.  Histories
    it accepts are exactly the behaviour of the listed findings; the others
    are unexplained.  Returns (explained, unexplained)."""
    att = P.get('asis')
    if not att or not rejects:
        return [], rejects
    d = work.sub('asis')
    # concatenate into few shard files
    n = min(vlib.NCPU, len(rejects))
    files = [open(os.path.join(d, 'shard-%02d.ndjson' % i), 'w') for i in range(n)]
    for i, r in enumerate(rejects):
        files[i % n].write('\n'.join(r['events']) + '\n')
    for f in files:
        f.close()
    res = vlib.validate_dir(work, att['module'], att['cfg'], d, env=att.get('env'), stack=att.get('stack', '64m'))
    bad = set()
    for r in res:
        for (line, h, info) in r['rejects']:
            bad.add(h)
    return [r for r in rejects if r['h'] not in bad], [r for r in rejects if r['h'] in bad]


def decide(work, prop, P, rejects, tr):
    """Confirm + attribute.  Returns (violations [witness paths], known ids, notes)."""
    explained, unexplained = attribute_batch(work, P, rejects)
    notes = {}
    known_ids = []
    if explained:
        opens = vlib.load_known(prop)
        if not opens:
            # as-is model explains it but nothing is listed as open: report.
            unexplained = explained + unexplained
            explained = []
        else:
            known_ids = opens
    violations = []
    unconfirmed = 0
    k = 0
    for r in unexplained[:MAX_CONFIRM]:
        k += 1
        wit = vlib.save_witness(prop, k, r['events'])
        ok, newev, note = vlib.confirm(work, prop, wit, tr['module'], tr['cfg'], env=tr.get('env'),
                                       stack=tr.get('stack', '64m'))
        if ok:
            violations.append(wit)
        else:
            unconfirmed += 1
            os.remove(wit)
            log('rejection of history %d was not reproduced on re-execution %s' % (r['h'], note))
    notes['rejected_histories'] = len(rejects)
    notes['explained_by_known_findings'] = len(explained)
    notes['unexplained'] = len(unexplained)
    notes['unconfirmed'] = unconfirmed
    return violations, known_ids, notes


def finish(prop, violations, known, unconfirmed):
    for kf in known:
        print('KNOWN-FINDING: property=%s %s %s' % (prop, kf['id'], kf['what']))
    for w in violations:
        print('VIOLATION property=%s replay=%s' % (prop, w))
    sys.stdout.flush()
    if violations:
        return 1
    if unconfirmed:
        log('rejections that could not be reproduced: no verdict')
        return 2
    return 0


def run_generic(prop, tier, seed, t0):
    P = PROPS[prop]
    work = vlib.Work(prop)
    vlib.build_harness(work)
    vlib.clear_witnesses(prop)
    states = trans = 0
    mcs = []
    paths = os.path.join(work.dir, 'paths.ndjson')
    have_paths = False
    for m in P.get('mc', []):
        if m.get('tier') and m['tier'] != tier:
            continue
        cfg = m['cfg'] if isinstance(m['cfg'], str) else T(tier, *m['cfg'])
        r = vlib.model_check(work, m['module'], cfg, workers=m.get('workers'), timeout=m.get('timeout', 1500),
                             emit_to=paths if m.get('emit') else None, heap=m.get('heap', '12g'),
                             stack=m.get('stack', '64m'), must_hold=not m.get('expect_violation'))
        if m.get('expect_violation'):
            # as-is design must be refuted by TLC (the model sees the known defect)
            if r['ok']:
                raise MachineryError('%s %s: expected TLC to find the known defect, but it did not' % (m['module'], cfg))
        have_paths = have_paths or bool(m.get('emit'))
        states += r['distinct']
        trans += r['generated']
        mcs.append(dict(module=m['module'], cfg=cfg, distinct=r['distinct'], generated=r['generated'],
                        depth=r['depth'], wall_s=round(r['wall'], 1), emitted=r.get('emitted', 0),
                        refuted=bool(m.get('expect_violation'))))
    meta = vlib.run_harness(work, prop, seed, tier, paths=paths if have_paths else None,
                            extra=P.get('harness_args', []))
    tr = P['trace']
    res = vlib.validate_dir(work, tr['module'], tr['cfg'], meta['dir'], env=tr.get('env'),
                            stack=tr.get('stack', '64m'), heap=tr.get('heap', '3g'))
    rejects = gather_rejects(work, res, 'abs')
    violations, known, notes = decide(work, prop, P, rejects, tr)
    extra = dict(model_checking_runs=mcs, harness=dict(histories=meta['histories'], events=meta['events'],
                 tlc_paths_replayed=meta['paths'], hooks=work.hooks), validation=notes,
                 trace_spec=tr['module'], events_validated=sum(r['n'] for r in res),
                 generators={k[5:]: v for k, v in meta['counters'].items() if k.startswith('hist:')})
    post = P.get('post')
    if post:
        post(work, meta, extra)
    vlib.write_evidence(prop, tier, seed, t0, states, trans, meta['histories'], meta['samples'], extra,
                        violations=len(violations), assumptions=P.get('assumptions', []),
                        exhaustive=False)
    return finish(prop, violations, known, notes['unconfirmed'])


def run(prop, tier, seed, t0):
    P = PROPS[prop]
    return P.get('run', run_generic)(prop, tier, seed, t0)


def replay(prop, witness):
    P = PROPS[prop]
    if 'replay' in P:
        return P['replay'](prop, witness)
    work = vlib.Work(prop)
    vlib.build_harness(work)
    tr = P['trace']
    ok, newev, note = vlib.confirm(work, prop, witness, tr['module'], tr['cfg'], env=tr.get('env'),
                                   stack=tr.get('stack', '64m'))
    if ok:
        print('REPRODUCED: the real code again behaves as the specification %s forbids' % tr['module'])
        with open(newev) as f:
            for i, line in enumerate(f):
                if i < 40:
                    print('  ' + line.rstrip())
        return 1
    print('NOT REPRODUCED %s' % note)
    return 0


# --------------------------------------------------------------------------
# C07 queue.Queue

def c07_post(work, meta, extra):
    # coverage of implementation configurations (cap, head, n) reached in the real queue
    cfgs = [k for k in meta['counters'] if k.startswith('cfg:')]
    extra['ring_configurations_reached_in_real_code'] = len(cfgs)


PROPS['C07'] = dict(
    mc=[dict(module='RingDeque', cfg=('RingDeque_full_q.cfg', 'RingDeque_full_t.cfg')),
        dict(module='RingDeque', cfg=('RingDeque_gen_q.cfg', 'RingDeque_gen_t.cfg'), emit=True)],
    trace=dict(module='DequeTrace', cfg='DequeTrace.cfg'),
    post=c07_post,
    assumptions=['TLC and the TLA+ modules Deque/RingDeque/DequeTrace as transcription of the property',
                 'the Go driver logs results faithfully (checked by bin/selftest corruption tests)',
                 'exhaustive only within the stated capacity bound; beyond it histories are seeded samples'],
)
