"""Per-property configuration and the generic check flow."""
import json, os, shutil, subprocess, sys, time
import vlib
from vlib import log, MachineryError

MAX_CONFIRM = 3   # rejected histories confirmed individually (all are attributed)

PROPS = {}


def T(tier, q, t):
    return t if tier == 'thorough' else q


# --------------------------------------------------------------------------
# generic flow for properties decided by trace validation of recorded histories

def gather_rejects(work, results, tag):
    """Collect the events of every rejected history; returns list of dicts."""
    import re
    hre = re.compile(r'"h":(-?\d+)[,}]')
    out = []
    for r in results:
        if not r['rejects']:
            continue
        want = {h for (_, h, _) in r['rejects']}
        by = {h: [] for h in want}
        with open(r['path']) as f:
            for line in f:
                mm = hre.search(line)
                if mm and int(mm.group(1)) in want:
                    by[int(mm.group(1))].append(line.rstrip('\n'))
        for (line, h, info) in r['rejects']:
            out.append(dict(h=h, line=line, shard=r['path'], events=by[h], info=info))
    return out


def attribute_batch(work, P, rejects):
    """Known-finding attribution: validate the rejected histories against the
    as-is (implementation-shaped, defect switches on) specification.  Histories
    it accepts are exactly the behaviour of the listed findings; the others
    are unexplained.  Returns (explained, unexplained)."""
    att = P.get('asis')
    if not att or not rejects:
        return [], rejects
    d = work.sub('asis')
    # concatenate into few shard files
    n = min(vlib.NCPU, len(rejects))
    files = [open(os.path.join(d, 'shard-%02d.ndjson' % i), 'w') for i in range(n)]
    for i, r in enumerate(rejects):
        files[i % n].write('\n'.join(r['events']) + '\n')
    for f in files:
        f.close()
    res = vlib.validate_dir(work, att['module'], att['cfg'], d, env=att.get('env'), stack=att.get('stack', '64m'))
    bad = set()
    for r in res:
        for (line, h, info) in r['rejects']:
            bad.add(h)
    return [r for r in rejects if r['h'] not in bad], [r for r in rejects if r['h'] in bad]


def decide(work, prop, P, rejects, tr, start=0):
    """Confirm + attribute.  Returns (violations [witness paths], known ids, notes)."""
    explained, unexplained = attribute_batch(work, P, rejects)
    notes = {}
    known_ids = []
    if explained:
        opens = vlib.load_known(prop)
        if not opens:
            # as-is model explains it but nothing is listed as open: report.
            unexplained = explained + unexplained
            explained = []
        else:
            known_ids = opens
    violations = []
    unconfirmed = 0
    k = start
    pending = []
    for r in unexplained[:MAX_CONFIRM]:
        k += 1
        wit = vlib.save_witness(prop, k, r['events'])
        ok, newev, note = vlib.confirm(work, prop, wit, tr['module'], tr['cfg'], env=tr.get('env'),
                                       stack=tr.get('stack', '64m'))
        if ok:
            violations.append(wit)
        else:
            pending.append((r, wit, note))
    if pending and P.get('_ctx'):
        # The history alone does not reproduce: the behaviour may depend on what the process did before
        # (state kept across calls: pools, memos).  Second attempt: the whole run again in a fresh process
        # with identical arguments, and the same histories validated again.
        again = reproduce_in_context(work, prop, P['_ctx'], [r['h'] for (r, _, _) in pending], tr)
        for (r, wit, note) in pending:
            if r['h'] in again:
                with open(wit, 'w') as f:
                    f.write('\n'.join(again[r['h']]) + '\n')
                with open(wit + '.ctx.json', 'w') as f:
                    json.dump(dict(mode='whole-run', h=r['h'], seed=P['_ctx']['seed'], tier=P['_ctx']['tier'],
                                   harness_args=list(P['_ctx']['extra']), variant=P['_ctx'].get('variant', 0),
                                   note='reproduces only in the context of the whole run (state kept across calls); '
                                        'bin/check --replay re-runs the harness with these arguments'), f)
                violations.append(wit)
                log('history %d: reproduced in the context of the whole run (not in isolation)' % r['h'])
            else:
                unconfirmed += 1
                os.remove(wit)
                log('rejection of history %d was not reproduced on re-execution %s' % (r['h'], note))
    else:
        for (r, wit, note) in pending:
            unconfirmed += 1
            os.remove(wit)
            log('rejection of history %d was not reproduced on re-execution %s' % (r['h'], note))
    notes['rejected_histories'] = len(rejects)
    notes['explained_by_known_findings'] = len(explained)
    notes['unexplained'] = len(unexplained)
    notes['unconfirmed'] = unconfirmed
    return violations, known_ids, notes


def reproduce_in_context(work, prop, ctx, hs, tr):
    """Run the harness again (fresh process, identical arguments), pick the given histories out of its
    output and validate them again.  Returns {h: [event lines]} for those rejected again."""
    meta = vlib.run_harness(work, prop, ctx['seed'], ctx['tier'], paths=ctx.get('paths'), extra=ctx['extra'])
    want = set(hs)
    got = {h: [] for h in hs}
    for f in sorted(os.listdir(meta['dir'])):
        if not f.startswith('shard-'):
            continue
        with open(os.path.join(meta['dir'], f)) as fh:
            for line in fh:
                i = line.find('"h":')
                if i < 0:
                    continue
                j = i + 4
                while j < len(line) and (line[j].isdigit() or line[j] == '-'):
                    j += 1
                try:
                    h = int(line[i + 4:j])
                except ValueError:
                    continue
                if h in want:
                    got[h].append(line.rstrip('\n'))
    shutil.rmtree(meta['dir'], True)
    p = work.fresh('context') + '.ndjson'
    with open(p, 'w') as f:
        for h in hs:
            for line in got[h]:
                f.write(line + '\n')
    v = vlib.validate_file(work, tr['module'], tr['cfg'], p, env=tr.get('env'), stack=tr.get('stack', '512m'))
    rejected = {h for (_, h, _) in v['rejects']}
    return {h: got[h] for h in hs if h in rejected and got[h]}


def finish(prop, violations, known, unconfirmed):
    for kf in known:
        print('KNOWN-FINDING: property=%s %s %s' % (prop, kf['id'], kf['what']))
    for w in violations:
        print('VIOLATION property=%s replay=%s' % (prop, w))
    sys.stdout.flush()
    if violations:
        return 1
    if unconfirmed:
        log('rejections that could not be reproduced: no verdict')
        return 2
    return 0


def run_generic(prop, tier, seed, t0):
    P = PROPS[prop]
    work = vlib.Work(prop)
    vlib.build_harness(work)
    vlib.clear_witnesses(prop)
    states = trans = 0
    mcs = []
    paths = os.path.join(work.dir, 'paths.ndjson')
    have_paths = False
    todo = [m for m in P.get('mc', []) if not (m.get('tier') and m['tier'] != tier)]

    def one(im):
        i, m = im
        cfg = m['cfg'] if isinstance(m['cfg'], str) else T(tier, *m['cfg'])
        pf = os.path.join(work.dir, 'paths-%d.ndjson' % i) if m.get('emit') else None
        r = vlib.model_check(work, m['module'], cfg, workers=m.get('workers'), timeout=m.get('timeout', 1500),
                             emit_to=pf, heap=m.get('heap', '12g'),
                             stack=m.get('stack', '64m'), must_hold=not m.get('expect_violation'))
        if m.get('expect_violation') and r['ok']:
            # the as-is design must be refuted by TLC (the model sees the known defect)
            raise MachineryError('%s %s: expected TLC to find the known defect, but it did not' % (m['module'], cfg))
        return m, cfg, r, pf

    import concurrent.futures as cf
    with cf.ThreadPoolExecutor(max_workers=P.get('mc_parallel', 4)) as ex:
        results = list(ex.map(one, enumerate(todo)))
    # symbolic runs (Apalache): inductive invariants of design-level specifications
    apa = []
    for a in P.get('apalache', []):
        if a.get('tier') and a['tier'] != tier:
            continue
        r = vlib.apalache(work, a['module'], a['args'], timeout=a.get('timeout', 1200))
        if r['outcome'] != a.get('expect', 'ok'):
            raise MachineryError('Apalache %s %s: expected %s, got %s — the design-level argument no longer stands'
                                 % (a['module'], r['args'], a.get('expect', 'ok'), r['outcome']))
        apa.append(dict(r, what=a.get('what', '')))
    with open(paths, 'w') as pf_all:
        for m, cfg, r, pf in results:
            if pf:
                have_paths = True
                with open(pf) as f:
                    shutil.copyfileobj(f, pf_all)
                os.remove(pf)
            states += r['distinct']
            trans += r['generated']
            mcs.append(dict(module=m['module'], cfg=cfg, distinct=r['distinct'], generated=r['generated'],
                            depth=r['depth'], wall_s=round(r['wall'], 1), emitted=r.get('emitted', 0),
                            refuted=bool(m.get('expect_violation'))))
    variants = P.get('variants') or [dict(harness_args=P.get('harness_args', []), trace=P['trace'])]
    violations, known, allnotes = [], [], {}
    nhist = nevents = npaths = nval = 0
    samples, gens, counters = [], {}, {}
    for vi, var in enumerate(variants):
        meta = vlib.run_harness(work, prop, seed, tier, paths=paths if have_paths else None,
                                extra=var.get('harness_args', []))
        tr = var['trace']
        res = vlib.validate_dir(work, tr['module'], tr['cfg'], meta['dir'], env=tr.get('env'),
                                stack=tr.get('stack', '64m'), heap=tr.get('heap', '3g'))
        rejects = gather_rejects(work, res, 'abs')
        ctx = dict(seed=seed, tier=tier, paths=paths if have_paths else None, extra=var.get('harness_args', []), variant=vi)
        v, k, notes = decide(work, prop, dict(P, _ctx=ctx, **var), rejects, tr, start=len(violations))
        violations += v
        known = known or k
        for kk, vv in notes.items():
            allnotes[kk] = allnotes.get(kk, 0) + vv
        nhist += meta['histories']
        nevents += meta['events']
        npaths += meta['paths']
        nval += sum(r['n'] for r in res)
        samples = samples or meta['samples']
        extra_raw = meta.get('extra', {})
        for kk, vv in meta['counters'].items():
            counters[kk] = counters.get(kk, 0) + vv
            if kk.startswith('hist:'):
                gens[kk[5:]] = gens.get(kk[5:], 0) + vv
        shutil.rmtree(meta['dir'], True)
    meta = dict(counters=counters, extra_raw=extra_raw)
    extra = dict(model_checking_runs=mcs, harness=dict(histories=nhist, events=nevents,
                 tlc_paths_replayed=npaths, hooks=work.hooks), validation=allnotes,
                 trace_spec=[v['trace']['module'] + '/' + v['trace']['cfg'] for v in variants],
                 events_validated=nval, generators=gens)
    if apa:
        extra['apalache_runs'] = apa
    post = P.get('post')
    if post:
        post(work, meta, extra)
    for i, txt in enumerate(extra.pop('_violations', [])):
        violations.append(vlib.save_witness(prop, 100 + i, [txt], 'json'))
    if not prop.startswith('X'):      # extra (unregistered) checks leave no evidence file
        vlib.write_evidence(prop, tier, seed, t0, states, trans, nhist, samples, extra,
                            violations=len(violations), assumptions=P.get('assumptions', []),
                            exhaustive=False)
    return finish(prop, violations, known, allnotes['unconfirmed'])


def gen_paths(work, P, tier):
    """the TLC-generated inputs of a tier, as the check itself produces them"""
    paths = os.path.join(work.dir, 'paths-replay.ndjson')
    have = False
    with open(paths, 'w') as out:
        for i, m in enumerate(P.get('mc', [])):
            if not m.get('emit') or m.get('expect_violation') or (m.get('tier') and m['tier'] != tier):
                continue
            cfg = m['cfg'] if isinstance(m['cfg'], str) else T(tier, *m['cfg'])
            pf = os.path.join(work.dir, 'pr-%d.ndjson' % i)
            vlib.model_check(work, m['module'], cfg, workers=m.get('workers'), timeout=m.get('timeout', 1500), emit_to=pf,
                             heap=m.get('heap', '12g'), stack=m.get('stack', '64m'))
            with open(pf) as f:
                shutil.copyfileobj(f, out)
            os.remove(pf)
            have = True
    return paths if have else None


def run(prop, tier, seed, t0):
    P = PROPS[prop]
    return P.get('run', run_generic)(prop, tier, seed, t0)


def replay(prop, witness):
    P = PROPS[prop]
    if 'replay' in P:
        return P['replay'](prop, witness)
    work = vlib.Work(prop)
    vlib.build_harness(work)
    trs = [v['trace'] for v in P['variants']] if P.get('variants') else [P['trace']]
    if os.path.exists(witness + '.ctx.json'):
        # the witness reproduces only in the context of the whole run: run it again
        with open(witness + '.ctx.json') as f:
            cx = json.load(f)
        paths = gen_paths(work, P, cx['tier'])
        tr = trs[cx.get('variant', 0)]
        again = reproduce_in_context(work, prop, dict(seed=cx['seed'], tier=cx['tier'], paths=paths, extra=cx['harness_args']),
                                     [cx['h']], tr)
        if cx['h'] in again:
            print('REPRODUCED (whole run, seed %s, tier %s): history %d is again rejected by %s'
                  % (cx['seed'], cx['tier'], cx['h'], tr['module']))
            for line in again[cx['h']][:40]:
                print('  ' + line)
            return 1
        print('NOT REPRODUCED in a whole run with seed %s, tier %s' % (cx['seed'], cx['tier']))
        return 0
    ok = False
    for tr in trs:
        try:
            ok, newev, note = vlib.confirm(work, prop, witness, tr['module'], tr['cfg'], env=tr.get('env'),
                                           stack=tr.get('stack', '64m'))
        except MachineryError as e:
            note = str(e)
            continue
        if ok or len(trs) == 1:
            break
    if ok:
        print('REPRODUCED: the real code again behaves as the specification %s forbids' % tr['module'])
        with open(newev) as f:
            for i, line in enumerate(f):
                if i < 40:
                    print('  ' + line.rstrip())
        return 1
    print('NOT REPRODUCED %s' % note)
    return 0


# --------------------------------------------------------------------------
# C07 queue.Queue

def c07_post(work, meta, extra):
    # coverage of implementation configurations (cap, head, n) reached in the real queue
    cfgs = [k for k in meta['counters'] if k.startswith('cfg:')]
    extra['ring_configurations_reached_in_real_code'] = len(cfgs)


PROPS['C07'] = dict(
    mc=[dict(module='RingDeque', cfg=('RingDeque_full_q.cfg', 'RingDeque_full_t.cfg')),
        dict(module='RingDeque', cfg=('RingDeque_gen_q.cfg', 'RingDeque_gen_t.cfg'), emit=True)],
    trace=dict(module='DequeTrace', cfg='DequeTrace.cfg'),
    post=c07_post,
    assumptions=['TLC and the TLA+ modules Deque/RingDeque/DequeTrace as transcription of the property',
                 'the Go driver logs results faithfully (checked by bin/selftest corruption tests)',
                 'exhaustive only within the stated capacity bound; beyond it histories are seeded samples'],
)


# --------------------------------------------------------------------------
# C01 / C02 stree.Tree

def _scapegoat_mc(tier):
    out = []
    for b in (0, 250, 500, 750, 1000):
        out.append(dict(module='Scapegoat', cfg=('Scapegoat_b%d_q.cfg' % b, 'Scapegoat_b%d_t.cfg' % b), emit=True,
                        workers=4))
    for b in (0, 1000):
        out.append(dict(module='Scapegoat', cfg='Scapegoat_b%d_tag.cfg' % b, emit=True, workers=4))
    return out


STREE_ASSUME = ['TLC; SortedSet/Scapegoat/BigNat modules as transcription of the property and of stree.go',
                'exhaustive over all histories of the modelled key universe only; larger trees are seeded samples',
                'a clone inherits P (largest Len) from its original (DESIGN.md section 6)']
PROPS['C01'] = dict(mc=_scapegoat_mc(None), trace=dict(module='SortedSetTrace', cfg='SortedSetTrace.cfg'),
                    assumptions=STREE_ASSUME)
PROPS['C02'] = dict(mc=_scapegoat_mc(None) + [dict(module='BigNatMC', cfg=('BigNatMC_q.cfg', 'BigNatMC_t.cfg'), workers=1)], trace=dict(module='BalanceTrace', cfg='BalanceTrace.cfg', stack='256m'),
                    assumptions=STREE_ASSUME)

# --------------------------------------------------------------------------
# C03 stree.Cursor
PROPS['C03'] = dict(
    mc=[dict(module='TreeCursorMC', cfg=('TreeCursorMC_q.cfg', 'TreeCursorMC_t.cfg'), emit=True, workers=8)],
    trace=dict(module='TreeCursorTrace', cfg='TreeCursorTrace.cfg', stack='256m'),
    assumptions=['TLC; TreeCursor module: abstract moves defined by key order, algorithmic moves transcribed from cursor.go',
                 'all binary-tree shapes up to the node bound are exhaustive; larger trees and longer move sequences are seeded samples',
                 'real trees of a given shape are built by pre-order insertion with beta=1000 (no rebalancing)'])


# --------------------------------------------------------------------------
# C04 omap.Map
PROPS['C04'] = dict(
    mc=[dict(module='OrderedMapMC', cfg=('OrderedMapMC_q.cfg', 'OrderedMapMC_t.cfg'), emit=True, workers=8),
        dict(module='OrderedMapMC', cfg='OrderedMapMC_rev.cfg', emit=True, workers=4)],
    variants=[dict(harness_args=[], trace=dict(module='OrderedMapTrace', cfg='OrderedMapTrace_FALSE.cfg')),
              dict(harness_args=['-rev'], trace=dict(module='OrderedMapTrace', cfg='OrderedMapTrace_TRUE.cfg'))],
    assumptions=['TLC; OrderedMap module as transcription of the property',
                 'iterators are only stepped when not stale (no Set/Clear/successful Delete since they were positioned), as the package documents',
                 'structure-level exhaustiveness of the underlying tree is covered by C01'])

# --------------------------------------------------------------------------
# C05 / C06 heapq.Queue
HEAP_ASSUME = ['TLC; PriorityBagTrace as transcription of the property; Heap.tla as transcription of heapq.go',
               'known findings F1/F2 are attributed by the as-is model HeapTrace(Known={F1,F2}): a rejected history is a known finding iff the real queue produced exactly the arrays/results/reports that model prescribes',
               'exhaustive within the stated length/priority bounds; larger queues are seeded samples']
PROPS['C05'] = dict(
    mc=[dict(module='HeapMC', cfg=('HeapMC_fixed_q.cfg', 'HeapMC_fixed_t.cfg'), workers=8),
        dict(module='HeapMC', cfg='HeapMC_asis_refute.cfg', expect_violation=True, workers=4),
        dict(module='HeapMC', cfg='HeapMC_f1_refute.cfg', expect_violation=True, workers=4),
        dict(module='HeapMC', cfg='HeapMC_f2_refute.cfg', expect_violation=True, workers=4),
        dict(module='HeapMC', cfg=('HeapMC_asis_gen_q.cfg', 'HeapMC_asis_gen_t.cfg'), emit=True, workers=8)],
    trace=dict(module='PriorityBagTrace', cfg='PriorityBagTrace.cfg'),
    asis=dict(module='HeapTrace', cfg='HeapTrace_asis.cfg'),
    assumptions=HEAP_ASSUME)
PROPS['C06'] = dict(
    mc=[dict(module='HeapMC', cfg='HeapMC_posfixed_q.cfg', workers=8),
        dict(module='HeapMC', cfg=('HeapMC_pos_q.cfg', 'HeapMC_pos_t.cfg'), emit=True, workers=8)],
    trace=dict(module='PosTrace', cfg='PosTrace.cfg'),
    assumptions=['TLC; PosTrace as transcription of the property; HeapMC checks position tracking on both the corrected and the as-is heap',
                 'position tracking is independent of heap order: C05\'s known findings do not affect it'])

# --------------------------------------------------------------------------
# C08 cache LRU (sequential)
PROPS['C08'] = dict(
    mc=[dict(module='LRUMC', cfg=('LRUMC_q.cfg', 'LRUMC_t.cfg'), emit=True, workers=8),
        dict(module='LRUMC', cfg='LRUMC_q2.cfg', emit=True, workers=4),
        dict(module='LRUMC', cfg=('LRUMC_unit_q.cfg', 'LRUMC_unit_t.cfg'), emit=True, workers=4),
        dict(module='LRUHeapMC', cfg='LRUHeapMC_fixed.cfg', workers=4),
        dict(module='LRUHeapMC', cfg=('LRUHeapMC_gen_q.cfg', 'LRUHeapMC_gen_t.cfg'), workers=4, emit=True),
        dict(module='LRUHeapMC', cfg='LRUHeapMC_f2.cfg', workers=1, expect_violation=True, emit=True),
        dict(module='LRUHeapMC', cfg='LRUHeapMC_asis.cfg', workers=1, expect_violation=True, emit=True)],
    trace=dict(module='LRUTrace', cfg='LRUTrace.cfg'),
    asis=dict(module='LRUHeapTrace', cfg='LRUHeapTrace_asis.cfg'),
    assumptions=['TLC; LRU.tla as transcription of the property; LRUHeap.tla/Heap.tla as transcription of cache.go, lru.go, heapq.go',
                 'known finding F2 is attributed by the as-is model LRUHeapTrace(Known={F1,F2}); the TLC counterexample of LRUHeapMC(Known={F2}) is replayed on the real cache',
                 'Clear\'s callback order is unconstrained (exactly-once only)'])

# --------------------------------------------------------------------------
# C09 cache.Cache under concurrency: linearizability search per recorded
# history (LinTrace) + Go race detector during the recorded runs

import re as _re
HW_RE = _re.compile(r'<<"HIGHWATER", (\d+), (\d+)>>')


LIN_STATS = dict(distinct=0, generated=0)


def lin_validate_file(work, path):
    """Returns (n_histories, [line text of each non-linearizable history])."""
    bad = []
    total = 0
    cur = path
    while True:
        if os.path.getsize(cur) == 0:
            break
        r = vlib.tlc(work, 'LinTrace', 'LinTrace.cfg', workers=1, timeout=1800, env={'TRACE': cur}, heap='3g')
        LIN_STATS['distinct'] += r['distinct']
        LIN_STATS['generated'] += r['generated']
        m = HW_RE.search(r['out'])
        if not m or r['rc'] != 0:
            raise MachineryError('linearizability search did not complete on %s (rc=%d):\n%s' % (cur, r['rc'], vlib.tlc_tail(r)))
        hw, n = int(m.group(1)), int(m.group(2))
        if cur == path:
            total = n
        if hw >= n + 1:
            break
        with open(cur) as f:
            lines = f.readlines()
        bad.append(lines[hw - 1].rstrip('\n'))
        if len(bad) >= 4:
            break       # enough witnesses from this file (each further one costs another TLC run)
        nxt = work.fresh('linrest') + '.ndjson'
        with open(nxt, 'w') as f:
            f.writelines(lines[hw:])
        cur = nxt
    return total, bad


def scan_race_logs(d):
    reps = []
    for f in sorted(os.listdir(d)):
        if f.startswith('race.'):
            txt = open(os.path.join(d, f), errors='replace').read()
            for blk in txt.split('=================='):
                if 'DATA RACE' in blk:
                    reps.append(blk.strip())
    return reps


def run_c09(prop, tier, seed, t0):
    import concurrent.futures as cf
    P = PROPS[prop]
    work = vlib.Work(prop)
    rbin = vlib.build_harness(work, race=True)
    work.bin = rbin
    vlib.clear_witnesses(prop)
    states = trans = 0
    mcs = []
    for m in P.get('mc', []):
        cfg = m['cfg'] if isinstance(m['cfg'], str) else T(tier, *m['cfg'])
        r = vlib.model_check(work, m['module'], cfg, workers=m.get('workers', 8), timeout=1500,
                             must_hold=not m.get('expect_violation'))
        if m.get('expect_violation') and r['ok']:
            raise MachineryError('%s %s: expected a violating interleaving, TLC found none' % (m['module'], cfg))
        states += r['distinct']
        trans += r['generated']
        mcs.append(dict(module=m['module'], cfg=cfg, distinct=r['distinct'], generated=r['generated'],
                        refuted=bool(m.get('expect_violation')), wall_s=round(r['wall'], 1)))
    racedir = work.sub('race')
    env = dict(os.environ, GORACE='halt_on_error=0 exitcode=0 log_path=%s/race' % racedir)
    crashed = None
    try:
        meta = vlib.run_harness(work, prop, seed, tier, env=env)
    except vlib.HarnessDied as e:
        # a Go runtime fatal error (e.g. "concurrent map writes") is behaviour of the real code
        if 'fatal error: concurrent map' in e.text or 'DATA RACE' in e.text:
            crashed = e.text
            meta = None
        else:
            raise
    violations = []
    k = 0
    races = scan_race_logs(racedir)
    mdsrace = [r for r in races if 'creachadair/mds/' in r]
    if crashed:
        k += 1
        violations.append(vlib.save_witness(prop, k, [crashed], 'txt'))
    if mdsrace:
        k += 1
        violations.append(vlib.save_witness(prop, k, ['Go race detector report while running concurrent cache workloads:', mdsrace[0]], 'txt'))
    elif races:
        raise MachineryError('race detector fired, but not on mds code:\n' + races[0][:3000])
    nhist = nbad = 0
    samples = []
    nonlin = []
    if meta:
        files = sorted(os.path.join(meta['dir'], f) for f in os.listdir(meta['dir']) if f.startswith('shard-'))
        tv = time.time()
        with cf.ThreadPoolExecutor(max_workers=vlib.NCPU) as ex:
            for total, bad in ex.map(lambda p: lin_validate_file(work, p), files):
                nhist += total
                nonlin += bad
        log('linearizability search: %d histories, %d without a linearization, %.1fs' % (nhist, len(nonlin), time.time() - tv))
        samples = meta['samples'][:2]
    # further history shapes, each with its own (cheaper, specialised) trace specification:
    #   burst: concurrent Gets of the warm keys, then Puts that must evict the cold keys (BurstTrace)
    #   duel:  Get(k) against one concurrent writer of the same entry, then the quiescent state (DuelTrace)
    shapes = {}
    for kind, module in (('burst', 'BurstTrace'), ('duel', 'DuelTrace')):
        if crashed:
            break
        try:
            bmeta = vlib.run_harness(work, prop, seed, tier, env=env, extra=['-kind', kind])
        except vlib.HarnessDied as e:
            if 'fatal error: concurrent map' in e.text or 'DATA RACE' in e.text:
                k += 1
                violations.append(vlib.save_witness(prop, k, [e.text], 'txt'))
                continue
            raise
        res = vlib.validate_dir(work, module, module + '.cfg', bmeta['dir'], stack='512m')
        rej = gather_rejects(work, res, 'abs')
        shapes[kind] = dict(histories=bmeta['histories'], events=bmeta['events'], rejected=len(rej), trace_spec=module)
        for r in rej[:MAX_CONFIRM]:
            k += 1
            wit = vlib.save_witness(prop, k, r['events'])
            # the recorded history is the evidence (a schedule cannot be replayed): alone it must be rejected again
            v = vlib.validate_file(work, module, module + '.cfg', wit, stack='512m')
            if not v['rejects']:
                os.remove(wit)
                raise MachineryError('%s witness %s was accepted when validated alone' % (kind, wit))
            violations.append(wit)
        nhist += bmeta['histories']
        shutil.rmtree(bmeta['dir'], True)
    if not crashed and not mdsrace:
        late = [r for r in scan_race_logs(racedir) if 'creachadair/mds/' in r]
        if late:
            k += 1
            violations.append(vlib.save_witness(prop, k, ['Go race detector report while running bursts / duels:', late[0]], 'txt'))
    rer = {}
    for line in nonlin[:MAX_CONFIRM]:
        k += 1
        wit = vlib.save_witness(prop, k, [line])
        # the witness alone must again have no linearization (deterministic)
        tot, bad = lin_validate_file(work, wit)
        if not bad:
            os.remove(wit)
            raise MachineryError('witness %s was accepted when validated alone' % wit)
        violations.append(wit)
        # informational: how often does the same workload misbehave again?
        out = work.fresh('rerun') + '.ndjson'
        r = subprocess.run([work.bin, 'confirm', prop, '-witness', wit, '-out', out, '-seed', str(seed)],
                           capture_output=True, text=True, env=env, timeout=900)
        if r.returncode == 0:
            tot, bad2 = lin_validate_file(work, out)
            rer[os.path.basename(wit)] = '%d of %d reruns of the same workload had no linearization' % (len(bad2), tot)
    extra = dict(model_checking_runs=mcs, histories_recorded=nhist, non_linearizable=len(nonlin),
                 race_detector=dict(enabled=True, reports=len(races), reports_on_mds=len(mdsrace)),
                 reruns=rer, trace_spec='LinTrace (linearizability search against LRU.tla); BurstTrace (tiered LRU abstraction for bursts of commuting Gets); DuelTrace (two-call linearizability, one record per duel)',
                 other_history_shapes=shapes,
                 gomaxprocs=[1, 2, 4, 8])
    extra['linearizability_search_states'] = dict(LIN_STATS)
    states += LIN_STATS['distinct']
    trans += LIN_STATS['generated']
    vlib.write_evidence(prop, tier, seed, t0, max(states, 1), max(trans, 1), nhist, samples or ['(harness crashed)'], extra,
                        violations=len(violations), assumptions=P.get('assumptions', []), exhaustive=False)
    return finish(prop, violations, [], 0)


def replay_c09(prop, witness):
    work = vlib.Work(prop)
    if witness.endswith('.txt'):
        print(open(witness).read()[:4000])
        print('(race-detector / crash report: not replayable deterministically; re-run bin/check C09)')
        return 1
    tot, bad = lin_validate_file(work, witness)
    if bad:
        print('REPRODUCED: the recorded concurrent history has no linearization consistent with LRU.tla')
        print(bad[0][:3000])
        return 1
    print('NOT REPRODUCED')
    return 0


PROPS['C09'] = dict(
    run=run_c09, replay=replay_c09,
    mc=[dict(module='CacheConc', cfg=('CacheConc_locked2.cfg', 'CacheConc_locked3.cfg'), workers=8),
        dict(module='CacheConc', cfg='CacheConc_clear2.cfg', workers=4),
        dict(module='CacheConc', cfg='CacheConc_noclear.cfg', expect_violation=True, workers=2),
        dict(module='CacheConc', cfg='CacheConc_nosize.cfg', expect_violation=True, workers=2),
        dict(module='CacheConc', cfg='CacheConc_nolen.cfg', expect_violation=True, workers=2),
        dict(module='CacheConc', cfg='CacheConc_noget.cfg', expect_violation=True, workers=2)],
    assumptions=['TLC decides each RECORDED history exhaustively (all linearizations); which schedules occur is up to the Go scheduler: seeds x GOMAXPROCS {1,2,4,8} x injected yields/spins',
                 'the "no data race" clause is observed by the Go race detector during the recorded runs (TLC does not see memory accesses)',
                 'workloads hold at most 4 entries, so known finding F2 (needs >= 7 live entries) cannot occur and the sequential oracle is the plain LRU',
                 'invocation/response order from one shared atomic counter read immediately before/after each call',
                 'CacheConc.tla (design level): with every method under the mutex and Put split at the grain of cache.go, every call is linearizable; variants with Size, Len, Get or Clear outside the mutex are refuted by TLC'])


# --------------------------------------------------------------------------
# C10 stack, mlink.Queue, mlink.List + cursors, ring.Ring
PROPS['C10'] = dict(
    mc=[dict(module='ListMC', cfg=('ListMC_q.cfg', 'ListMC_t.cfg'), emit=True, workers=8),
        dict(module='ListMC', cfg='ListMC_f7.cfg', expect_violation=True, workers=2),
        dict(module='RingMC', cfg=('RingMC_q.cfg', 'RingMC_t.cfg'), emit=True, workers=8)],
    variants=[dict(harness_args=['-kind', 'list'], trace=dict(module='ListTrace', cfg='ListTrace.cfg')),
              dict(harness_args=['-kind', 'ring'], trace=dict(module='RingTrace', cfg='RingTrace.cfg')),
              dict(harness_args=['-kind', 'stack'], trace=dict(module='DequeTrace', cfg='DequeTrace.cfg')),
              dict(harness_args=['-kind', 'mqueue'], trace=dict(module='DequeTrace', cfg='DequeTrace.cfg'))],
    assumptions=['TLC; ListSeq/RingSpec as transcription of the documented before/after pictures; ListMC/RingMC pointer-level models as transcription of list.go/ring.go',
                 'a call that does not return within 2 s is recorded as a hang (st=3), which the specification never allows',
                 'ring.At(+-len) is nil as the code and TestRing/Peek pin it; Join(r, r) is a no-op returning nil'])

# --------------------------------------------------------------------------
# C11 / C12 slice.EditScript, LCS, LIS, LNDS (records; every record its own history)
PROPS['C11'] = dict(
    mc=[dict(module='EditScriptMC', cfg=('EditScriptMC_q.cfg', 'EditScriptMC_t.cfg'), emit=True, workers=8)],
    trace=dict(module='EditScriptTrace', cfg='EditScriptTrace.cfg', stack='256m'),
    assumptions=['TLC; EditScript.tla: declarative ScriptOK/LCSLen and the transcription of slice/edit.go',
                 'exhaustive over the TLC-enumerated space of pairs (all pairs up to the length bound over 3 symbols, longer over 2); seeded random beyond',
                 '"the very spans" is checked as content equality at the running offsets (DESIGN.md section 6)'])
PROPS['C12'] = dict(
    mc=[dict(module='SubseqMC', cfg=('SubseqMC_q.cfg', 'SubseqMC_t.cfg'), emit=True, workers=8),
        dict(module='EditScriptMC', cfg=('EditScriptMC_lcs_q.cfg', 'EditScriptMC_q.cfg'), emit=True, workers=8)],
    trace=dict(module='SubseqTrace', cfg='SubseqTrace.cfg', stack='256m'),
    assumptions=['TLC; Subseq.tla/EditScript.tla: declarative optimum (quadratic DP) and transcription of the patience algorithm',
                 'exhaustive over the TLC-enumerated input space; seeded random beyond (long near-monotone inputs with duplicates)'])

# --------------------------------------------------------------------------
# C13 mdiff chunks
PROPS['C13'] = dict(
    mc=[dict(module='DiffChunksMC', cfg=('DiffChunksMC_q.cfg', 'DiffChunksMC_t.cfg'), emit=True, workers=8),
        dict(module='DiffUnify', cfg='DiffUnify_fixed.cfg', workers=8),
        dict(module='DiffUnify', cfg='DiffUnify_asis.cfg', workers=2, expect_violation=True)],
    trace=dict(module='DiffChunksTrace', cfg='DiffChunksTrace.cfg', stack='256m'),
    assumptions=['TLC; DiffChunks.tla stage conditions as transcription of the property; ModelNew transcribes mdiff.New',
                 'exhaustive over the TLC-enumerated space of pairs x all context sizes 0..MaxN; seeded random beyond (incl. n larger than every gap)'])

# --------------------------------------------------------------------------
# C14 mdiff text formats
PROPS['C14'] = dict(
    mc=[dict(module='DiffFormatMC', cfg='DiffFormatMC_fixed.cfg', workers=8),
        dict(module='DiffFormatMC', cfg='DiffFormatMC_f6.cfg', workers=2, expect_violation=True),
        dict(module='DiffChunksMC', cfg=('DiffChunksMC_c14_q.cfg', 'DiffChunksMC_q.cfg'), emit=True, workers=8)],
    trace=dict(module='DiffFormatTrace', cfg='DiffFormatTrace_fixed.cfg', stack='256m'),
    asis=dict(module='DiffFormatTrace', cfg='DiffFormatTrace_asis.cfg', stack='256m'),
    assumptions=['TLC; DiffFormat.tla: range semantics of the normal/unified/context formats as published and as GNU patch applies them (strict, no fuzz)',
                 'the Go driver lexes formatter output into hunks (numbers as written, tagged body lines) without interpreting ranges',
                 'known findings F5 (reader: omitted count read as 0) and F6 (writer: empty unified range spelled with the following line) are attributed by the same specification with Conv={F5,F6}',
                 'lines never contain newlines; line strings include empty lines and lines that look like diff syntax'])

# --------------------------------------------------------------------------
# C15 / C16 package shell
PROPS['C15'] = dict(
    mc=[dict(module='QuoteMC', cfg=('QuoteMC_q.cfg', 'QuoteMC_t.cfg'), emit=True, workers=8)],
    trace=dict(module='QuoteTrace', cfg='QuoteTrace.cfg', stack='1g', heap='6g'),
    assumptions=['TLC; ShellLex.tla Eval: POSIX word evaluation (XCU 2.2) with the must-quote / may-quote byte lists taken from the standard, not from the package constants',
                 'exhaustive over every single byte, all strings up to the length bound over 14 byte classes, all short lists; seeded random beyond',
                 'a shell obtains exactly s only for s without NUL (the model itself handles NUL as an ordinary byte)'])
PROPS['C16'] = dict(
    mc=[dict(module='ShellMC', cfg=('ShellMC_q.cfg', 'ShellMC_t.cfg'), emit=True, workers=8)],
    trace=dict(module='ShellTrace', cfg='ShellTrace.cfg', stack='256m'),
    assumptions=['TLC; ShellLex.tla Lex: reference tokenizer written by quoting modes from the POSIX rules; Table: the 7x6 table of shell.go as data',
                 'input ending inside a quote or after a backslash yields the partial (possibly empty) word with complete = FALSE; $ and ` are ordinary bytes for Split (outside the six classes)',
                 'exhaustive over all strings up to the length bound over six class representatives, every byte value in four contexts; seeded random and >4096-byte inputs beyond'])

# --------------------------------------------------------------------------
# C17 slice utilities
PROPS['C17'] = dict(
    mc=[dict(module='SliceOpsMC', cfg=('SliceOpsMC_q.cfg', 'SliceOpsMC_t.cfg'), emit=True, workers=8)],
    trace=dict(module='SliceOpsTrace', cfg='SliceOpsTrace.cfg', stack='256m'),
    assumptions=['TLC; SliceOps.tla as transcription of the documentation and of the property ("capacity-clipped" = cap equals len)',
                 'exhaustive over the TLC-enumerated argument space (all lengths up to the bound, all k/n in and around the valid range, all keep patterns up to 6 elements, spare capacity 0 and 3); seeded random beyond',
                 'aliasing offsets and capacities are read with unsafe pointer arithmetic by the driver'])

# --------------------------------------------------------------------------
# C18 mapset
PROPS['C18'] = dict(
    mc=[dict(module='MapSetMC', cfg=('MapSetMC_q.cfg', 'MapSetMC_t.cfg'), emit=True, workers=8)],
    trace=dict(module='MapSetTrace', cfg='MapSetTrace.cfg'),
    assumptions=['TLC; finite sets are TLA+\'s native semantics, MapSet.tla adds nil-ness and the method effects',
                 'exhaustive over all histories of the modelled operations over a 2 (quick) / 3 (thorough) element universe with nil, empty and non-empty operands; seeded histories over 5 elements beyond',
                 'Pop may remove any member; the logged return value resolves the choice'])

# --------------------------------------------------------------------------
# C19 distinct.Counter

def c19_post(work, meta, extra):
    """Statistical clause: sample mean of Count over independent real-entropy
    runs against the model's expectation E[Count] = number of distinct values
    (the one-step unbiasedness identities are checked by TLC in CVM.tla).
    Exact integer sums from the harness; tolerance 7 standard errors."""
    import math
    res = []
    for st in meta.get('extra_raw', {}).get('stats', []):
        n = st['runs']
        tot, sq = int(st['sum']), int(st['sumsq'])
        mean = tot / n
        var = max(sq / n - mean * mean, 0.0) * n / (n - 1)
        se = math.sqrt(var / n)
        dev = abs(mean - st['distinct'])
        ok = dev <= 7 * se + 1e-9 and st['maxlen'] <= st['size']
        res.append(dict(size=st['size'], distinct=st['distinct'], repeat=st['repeat'], after_reset=st.get('reuse', 0), runs=n, mean=round(mean, 3),
                        std_err=round(se, 4), deviation_in_std_errs=round(dev / se, 2) if se > 0 else 0.0,
                        max_len_seen=st['maxlen'], ok=ok))
    extra['statistical_conformance'] = res
    extra['statistical_note'] = 'not decided by TLC: sample mean vs the expectation proved on the model; false-alarm probability per configuration ~ 2.6e-12 (7 sigma)'
    bad = [r for r in res if not r['ok']]
    if bad:
        extra['_violations'] = [json.dumps(b) for b in bad]


PROPS['C19'] = dict(
    mc=[dict(module='CVMMC', cfg=('CVMMC_q.cfg', 'CVMMC_t.cfg'), emit=True, workers=8),
        dict(module='CVMMC', cfg='CVMMC_f8.cfg', expect_violation=True, workers=2)],
    trace=dict(module='CVMTrace', cfg='CVMTrace.cfg', stack='256m'),
    apalache=[dict(module='CVMInd', args=['--cinit=CInit', '--init=Init', '--inv=IndInv', '--length=0'], tier='thorough',
                   what='the initial states satisfy the inductive invariant'),
              dict(module='CVMInd', args=['--cinit=CInit', '--init=IndInit', '--inv=IndInv', '--length=1'], tier='thorough',
                   what='Len < size, the exact regime and buffer-from-stream are inductive over CVM!AddOutcomes/Reset: they hold after streams of any length (values 1..5, sizes 1..5, k unbounded)'),
              dict(module='CVMInd', args=['--cinit=CInit', '--init=IndInit', '--inv=KMonotone', '--length=1'], tier='thorough',
                   what='k never decreases except by Reset, from every state satisfying the invariant'),
              dict(module='CVMInd', args=['--cinit=CInitF8', '--init=IndInit', '--inv=IndInv', '--length=1'], tier='thorough',
                   expect='violation', what='non-vacuity: with one halving pass (the code as it was, F8) the invariant is not inductive')],
    post=c19_post,
    assumptions=['TLC; CVM.tla as transcription of the property and of distinct.go (coin with P(keep)=2^-k, halving passes)',
                 'hooks (build overlay): scripted random source, read access to k and the buffer; without them only the public observations are checked',
                 'thorough tier: Apalache discharges the inductive invariant of CVM.tla (CVMInd), so the design-level safety clauses hold for streams of any length within the value/size universe',
                 'the convergence-of-the-mean clause is a statistical test of real-entropy runs against the expectation proved on the model (7 standard errors)'])

# --------------------------------------------------------------------------
# C20 mbits, mstr
PROPS['C20'] = dict(
    mc=[dict(module='BytesMC', cfg=('BytesMC_q.cfg', 'BytesMC_t.cfg'), emit=True, workers=8),
        dict(module='StrMC', cfg=('StrMC_q.cfg', 'StrMC_t.cfg'), emit=True, workers=8)],
    trace=dict(module='BytesTrace', cfg='BytesTrace.cfg', stack='512m', heap='6g'),
    assumptions=['TLC; Bytes.tla: byte-by-byte definitions, Trunc postconditions, preorder laws; transcription of the word-at-a-time loops of mbits.go with their access sets',
                 'out-of-bounds WRITES are seen through guard bytes in the recorded memory images; out-of-bounds READS through PROT_NONE pages on either side of the slice (a fault is recorded as a panic) - an observation instrument outside TLC',
                 'exhaustive over all zero patterns up to the length bound at all 8 alignments, all strings of up to 3 (quick) / 4 (thorough) units at every cut point, the full 259 x 259 CompareNatural table; seeded random beyond'])

# --------------------------------------------------------------------------
# X01: not a listed property - specification growth (compare, value, mstr.Lines/Split, rest of slice)
PROPS['X01'] = dict(mc=[], trace=dict(module='ExtrasTrace', cfg='ExtrasTrace.cfg'),
                    assumptions=['unregistered extra check: parts of the library no listed property covers'])
