#!/usr/bin/env python3
"""Shared machinery for the /verif checks: build the Go harness from /repo's
working tree, run TLC (model checking, test generation, trace validation),
turn rejections into confirmed witnesses, attribute known findings, write
evidence.  Exit codes: 0 property held on everything explored (possibly with
KNOWN-FINDING lines), 1 confirmed violation (VIOLATION line), 2 the machinery
itself failed (never a verdict)."""
import atexit, concurrent.futures as cf, json, os, re, shutil, subprocess, sys, tempfile, time

VERIF = os.path.dirname(os.path.dirname(os.path.abspath(__file__)))
REPO = '/repo'
SPECS = os.path.join(VERIF, 'specs')
HARNESS = os.path.join(VERIF, 'harness')
EVID = os.path.join(VERIF, 'evidence')
REPLAYS = os.path.join(EVID, 'replays')
NCPU = os.cpu_count() or 4

GOENV = dict(os.environ, GOFLAGS='-mod=mod', GOPROXY='off', GOSUMDB='off', GOTOOLCHAIN='local',
             CGO_ENABLED=os.environ.get('CGO_ENABLED', '1'))


class MachineryError(Exception):
    pass


def log(*a):
    print('[check]', *a, file=sys.stderr, flush=True)


class Work:
    """Scratch directory for one check run; removed at exit."""

    def __init__(self, prop):
        base = os.environ.get('VERIF_TMP') or tempfile.gettempdir()
        self.dir = tempfile.mkdtemp(prefix='mdsverif-%s-' % prop, dir=base)
        if not os.environ.get('VERIF_KEEP'):
            atexit.register(shutil.rmtree, self.dir, True)
        self.specs = os.path.join(self.dir, 'specs')
        shutil.copytree(SPECS, self.specs)
        self.n = 0
        self.bin = None
        self.hooks = False

    def sub(self, name):
        p = os.path.join(self.dir, name)
        os.makedirs(p, exist_ok=True)
        return p

    def fresh(self, stem):
        self.n += 1
        return os.path.join(self.dir, '%s-%d' % (stem, self.n))


OVERLAYS = {
    # target file injected into /repo's package dir : source in /verif/harness/overlay
    'queue/zz_verif_export.go': 'queue_verif.go',
    'distinct/zz_verif_export.go': 'distinct_verif.go',
}


def build_harness(work, race=False):
    """Build cmd/mdsverif against /repo's current working tree.  Hooks are
    supplied as a build overlay guarded by the `verif` tag; if they do not
    compile (an internal field was renamed), fall back to the hook-free build."""
    gosum = os.path.join(HARNESS, 'go.sum')
    shutil.copyfile(os.path.join(REPO, 'go.sum'), gosum)
    repl = {}
    for tgt, src in OVERLAYS.items():
        s = os.path.join(HARNESS, 'overlay', src)
        if os.path.exists(s) and os.path.isdir(os.path.dirname(os.path.join(REPO, tgt))):
            repl[os.path.join(REPO, tgt)] = s
    ov = os.path.join(work.dir, 'overlay.json')
    with open(ov, 'w') as f:
        json.dump({'Replace': repl}, f)
    out = os.path.join(work.dir, 'mdsverif' + ('-race' if race else ''))
    base = ['go', 'build'] + (['-race'] if race else [])
    t0 = time.time()
    r = subprocess.run(base + ['-tags', 'verif', '-overlay', ov, '-o', out, './cmd/mdsverif'],
                       cwd=HARNESS, env=GOENV, capture_output=True, text=True)
    hooks = True
    if r.returncode != 0:
        log('hooked build failed, trying without hooks:\n' + r.stderr[-2000:])
        hooks = False
        r = subprocess.run(base + ['-o', out, './cmd/mdsverif'], cwd=HARNESS, env=GOENV,
                           capture_output=True, text=True)
        if r.returncode != 0:
            raise MachineryError('harness does not build against /repo:\n' + r.stderr[-4000:])
    log('harness built in %.1fs (hooks=%s race=%s)' % (time.time() - t0, hooks, race))
    if not race:
        work.bin, work.hooks = out, hooks
    return out


STATS_RE = re.compile(r'(\d+) states generated, (\d+) distinct states found, (\d+) states left on queue')
DEPTH_RE = re.compile(r'The depth of the complete state graph search is (\d+)')


def tlc(work, module, cfg, workers=None, timeout=600, env=None, heap='6g', extra=(), stack='512m',
        cwd=None):
    """Run TLC in the scratch copy of specs/.  Returns a dict with the output
    text and parsed statistics."""
    md = work.fresh('meta')
    cmd = ['timeout', str(timeout), 'tlc', '-workers', str(workers or 1), '-metadir', md,
           '-config', cfg] + list(extra) + [module + '.tla']
    e = dict(os.environ)
    if stack in ('64m', '256m'):
        stack = '512m'      # deep recursion over long sequences is common in the trace specs
    jt = os.path.join(work.dir, 'jtmp')      # TLC leaves an empty tlc-* directory per run in java.io.tmpdir
    os.makedirs(jt, exist_ok=True)
    e['JAVA_TOOL_OPTIONS'] = '-Xmx%s -Xss%s -Djava.io.tmpdir=%s' % (heap, stack, jt)
    if env:
        e.update(env)
    t0 = time.time()
    r = subprocess.run(cmd, cwd=cwd or work.specs, env=e, capture_output=True, text=True, errors='replace')
    shutil.rmtree(md, True)
    out = r.stdout
    res = dict(rc=r.returncode, out=out, err=r.stderr, wall=time.time() - t0, generated=0, distinct=0,
               depth=0, module=module, cfg=cfg, timed_out=(r.returncode == 124))
    m = None
    for m in STATS_RE.finditer(out):
        pass
    if m:
        res['generated'], res['distinct'] = int(m.group(1)), int(m.group(2))
    m = DEPTH_RE.search(out)
    if m:
        res['depth'] = int(m.group(1))
    res['ok'] = (r.returncode == 0 and 'Model checking completed. No error has been found.' in out) or \
                (r.returncode == 0 and 'Finished in' in out and 'Error:' not in out)
    return res


def apalache(work, module, args, timeout=1200):
    """apalache-mc check <args> <module>.tla in the scratch copy of specs/.  Returns 'ok', 'violation' or raises."""
    out = work.fresh('apalache')
    cmd = ['timeout', str(timeout), 'apalache-mc', 'check', '--out-dir=' + out, '--run-dir=' + os.path.join(out, 'run')] + list(args) + [module + '.tla']
    e = dict(os.environ)
    e['JVM_ARGS'] = '-Xmx4g -Djava.io.tmpdir=%s' % out
    e['JAVA_TOOL_OPTIONS'] = '-Djava.io.tmpdir=%s' % out      # SANY's scratch directories go there too
    os.makedirs(out, exist_ok=True)
    t0 = time.time()
    sany_before = {d for d in os.listdir('/tmp') if d.startswith('SANY')}
    r = subprocess.run(cmd, cwd=work.specs, env=e, capture_output=True, text=True, errors='replace')
    txt = r.stdout + r.stderr
    shutil.rmtree(out, True)
    for d in os.listdir('/tmp'):          # the parser front end leaves SANY* scratch directories in /tmp regardless
        if d.startswith('SANY') and d not in sany_before:
            shutil.rmtree(os.path.join('/tmp', d), True)
    if 'The outcome is: NoError' in txt and r.returncode == 0:
        res = 'ok'
    elif 'The outcome is: Error' in txt and 'invariant' in txt and 'violated' in txt:
        res = 'violation'
    else:
        raise MachineryError('apalache-mc %s %s did not run to a verdict (rc=%d):\n%s' % (module, ' '.join(args), r.returncode, txt[-3000:]))
    log('Apalache %s %s: %s, %.1fs' % (module, ' '.join(args), res, time.time() - t0))
    return dict(module=module, args=' '.join(args), outcome=res, wall_s=round(time.time() - t0, 1))


def tlc_tail(res, n=40):
    lines = [x for x in res['out'].splitlines() if not x.startswith('"')]
    return '\n'.join(lines[-n:]) + ('\n' + res['err'][-1500:] if res['err'].strip() else '')


def model_check(work, module, cfg, workers=None, timeout=900, heap='12g', emit_to=None, must_hold=True,
                extra=(), stack='64m', env=None):
    """Exhaustive TLC run of a specification.  With emit_to, lines printed by
    the spec's Emit action constraint (JSON strings) are collected there."""
    r = tlc(work, module, cfg, workers=workers or min(NCPU, 8), timeout=timeout, heap=heap, extra=extra,
            stack=stack, env=env)
    if r['timed_out']:
        raise MachineryError('TLC timed out on %s/%s' % (module, cfg))
    if must_hold and not r['ok']:
        raise MachineryError('specification %s (%s) is not accepted by TLC — the model itself is wrong:\n%s'
                             % (module, cfg, tlc_tail(r)))
    npaths = 0
    if emit_to:
        with open(emit_to, 'a') as f:
            for line in r['out'].splitlines():
                if line.startswith('"'):
                    try:
                        s = json.loads(line)
                    except ValueError:
                        continue
                    f.write(s + '\n')
                    npaths += 1
    r['emitted'] = npaths
    log('TLC %s %s: %d generated / %d distinct states, depth %d, %.1fs%s'
        % (module, cfg, r['generated'], r['distinct'], r['depth'], r['wall'],
           (', %d lines emitted' % npaths) if emit_to else ''))
    return r


def run_harness(work, prop, seed, tier, paths=None, shards=None, binary=None, env=None, timeout=3000,
                extra=()):
    out = work.fresh('traces')
    cmd = [binary or work.bin, 'run', prop, '-seed', str(seed), '-tier', tier, '-out', out,
           '-shards', str(shards or NCPU)]
    if paths:
        cmd += ['-paths', paths]
    cmd += list(extra)
    t0 = time.time()
    r = subprocess.run(cmd, capture_output=True, text=True, errors='replace', env=env, timeout=timeout)
    if r.returncode != 0:
        raise HarnessDied(r.returncode, r.stdout[-3000:] + r.stderr[-6000:])
    with open(os.path.join(out, 'meta.json')) as f:
        meta = json.load(f)
    log('harness %s: %d histories, %d events in %.1fs' % (prop, meta['histories'], meta['events'], time.time() - t0))
    meta['dir'] = out
    meta['stderr'] = r.stderr
    return meta


class HarnessDied(Exception):
    def __init__(self, rc, text):
        Exception.__init__(self, 'harness exited %d:\n%s' % (rc, text))
        self.rc, self.text = rc, text


REJ_RE = re.compile(r'<<"REJECT", (\d+), (-?\d+)(?:, ([^>]*))?>>')
FIN_RE = re.compile(r'<<"FINISHED", (\d+)>>')
NOTE_RE = re.compile(r'<<"NOTE", ([^>]*)>>')


def validate_file(work, module, cfg, path, timeout=1200, heap='3g', env=None, stack='64m'):
    e = {'TRACE': path}
    if env:
        e.update(env)
    if os.path.getsize(path) == 0:
        return dict(path=path, rejects=[], finished=True, n=0, generated=0, distinct=0, wall=0, notes=[])
    r = tlc(work, module, cfg, workers=1, timeout=timeout, env=e, heap=heap, stack=stack)
    rej = [(int(m.group(1)), int(m.group(2)), m.group(3)) for m in REJ_RE.finditer(r['out'])]
    fin = FIN_RE.search(r['out'])
    notes = NOTE_RE.findall(r['out'])
    if r['timed_out']:
        raise MachineryError('trace validation timed out on %s' % path)
    if not fin or r['rc'] != 0:
        raise MachineryError('trace validation of %s with %s did not run to completion (rc=%d):\n%s'
                             % (path, module, r['rc'], tlc_tail(r)))
    return dict(path=path, rejects=rej, finished=True, n=int(fin.group(1)), generated=r['generated'],
                distinct=r['distinct'], wall=r['wall'], notes=notes)


SPLIT_BYTES = 12 << 20      # TLC holds a whole file as TLA+ values (x20..40 in memory): keep files small


def split_big(d):
    """Split every shard larger than SPLIT_BYTES into parts at history boundaries (a history starts with
    op "new"); history numbers are kept, so rejections are attributed exactly as before."""
    for f in sorted(os.listdir(d)):
        p = os.path.join(d, f)
        if not (f.startswith('shard-') and f.endswith('.ndjson')) or '-part' in f or os.path.getsize(p) <= SPLIT_BYTES:
            continue
        k, size, out = 0, 0, None
        with open(p) as src:
            for line in src:
                if out is None or (size > SPLIT_BYTES and '"op":"new"' in line):
                    if out:
                        out.close()
                    out = open(os.path.join(d, '%s-part%04d.ndjson' % (f[:-7], k)), 'w')
                    k, size = k + 1, 0
                out.write(line)
                size += len(line)
        if out:
            out.close()
        os.remove(p)


def validate_dir(work, module, cfg, d, timeout=1200, heap='3g', env=None, jobs=None, stack='64m'):
    split_big(d)
    files = sorted(os.path.join(d, f) for f in os.listdir(d) if f.startswith('shard-') and f.endswith('.ndjson'))
    t0 = time.time()
    with cf.ThreadPoolExecutor(max_workers=jobs or NCPU) as ex:
        res = list(ex.map(lambda p: validate_file(work, module, cfg, p, timeout, heap, env, stack), files))
    nrej = sum(len(r['rejects']) for r in res)
    log('trace validation %s: %d files, %d events, %d rejected histories, %.1fs'
        % (module, len(files), sum(r['n'] for r in res), nrej, time.time() - t0))
    return res


def history_events(path, h):
    """Lines (raw JSON text) of history h in a shard file."""
    out = []
    with open(path) as f:
        for line in f:
            if not line.strip():
                continue
            if ('"h":%d,' % h) in line or ('"h":%d}' % h) in line:
                out.append(line.rstrip('\n'))
    return out


def load_known(prop):
    p = os.path.join(VERIF, 'known_findings.json')
    if not os.path.exists(p):
        return []
    with open(p) as f:
        k = json.load(f)
    return [e for e in k.get('findings', []) if e.get('status') == 'open' and prop in e.get('properties', [])]


def write_evidence(prop, tier, seed, t0, states, transitions, traces, samples, extra=None, violations=0,
                   assumptions=None, exhaustive=None):
    os.makedirs(EVID, exist_ok=True)
    cov = dict(states=int(states), transitions=int(transitions), traces_validated_against_impl=int(traces),
               samples=samples if samples else ['(none)'])
    if exhaustive is not None:
        cov['exhaustive'] = exhaustive
    if extra:
        cov.update(extra)
    ev = dict(property_id=prop, tier=tier, seed=int(seed), level='model_checking', coverage=cov,
              assumptions=assumptions or [], wall_s=round(time.time() - t0, 2), violations=int(violations))
    tmp = os.path.join(EVID, '.%s.json.tmp' % prop)
    with open(tmp, 'w') as f:
        json.dump(ev, f, indent=1, sort_keys=True)
        f.write('\n')
    os.replace(tmp, os.path.join(EVID, prop + '.json'))


def save_witness(prop, k, lines, suffix='ndjson'):
    os.makedirs(REPLAYS, exist_ok=True)
    p = os.path.join(REPLAYS, '%s-%d.%s' % (prop, k, suffix))
    with open(p, 'w') as f:
        f.write('\n'.join(lines) + '\n')
    return p


def clear_witnesses(prop):
    if os.path.isdir(REPLAYS):
        for f in os.listdir(REPLAYS):
            if f.startswith(prop + '-'):
                os.remove(os.path.join(REPLAYS, f))


def confirm(work, prop, witness, module, cfg, env=None, stack='64m'):
    """Re-execute the witness's operations against a fresh process of the real
    code and validate what it does *now* against the specification.  Returns
    (reproduced, new_events_path)."""
    out = work.fresh('confirm') + '.ndjson'
    r = subprocess.run([work.bin, 'confirm', prop, '-witness', witness, '-out', out],
                       capture_output=True, text=True, errors='replace', timeout=600)
    if r.returncode != 0:
        return False, out, 'confirm run died: ' + r.stderr[-1000:]
    v = validate_file(work, module, cfg, out, env=env, stack=stack)
    return (len(v['rejects']) > 0), out, ''
