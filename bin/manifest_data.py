HOOKS = dict(
    guard='verif (Go build tag; the guarded files live in /verif/harness/overlay and are injected with `go build -overlay`, nothing is committed to /repo for hooks)',
    enable='go build -tags verif -overlay <generated overlay.json> ./cmd/mdsverif  (done by bin/check on every run, from /repo\'s working tree)',
    baseline_off_cmd='cd /repo && GOFLAGS=-mod=mod GOPROXY=off GOSUMDB=off GOTOOLCHAIN=local go test -json -vet=off -count=1 -timeout 25m ./...',
    source_commits=[],
    add_only=True,
)
ENGINES = [dict(name='tlc-trace', path='/verif/bin/check',
                serves_properties=[],
                kind_free_text='TLA+ specifications in /verif/specs checked by TLC (exhaustive model checking of abstract and implementation-shaped specs, test generation from the state graph, trace validation of histories recorded from the real Go code by /verif/harness)')]
NOTES = 'See DESIGN.md. Exit codes of every check: 0 held / 1 VIOLATION (confirmed on the real code) / 2 machinery failure (no verdict).'
NA = {}
TRUST = 'Trusted: TLC; the TLA+ modules as transcription of the property text; the Go driver\'s logging (cross-checked by corruption self-tests). Exhaustive within the stated bounds of the configs, seeded sampling beyond.'
CHECKS = {
 'C07': dict(
   text='TLC checks exhaustively that the ring-buffer design (RingDeque: vs/head/n, rotate-then-grow, one action per method, transcribed from queue.go) refines the abstract Deque for all capacities up to the bound; the explored state graph is emitted as operation paths (one per generated transition, covering every (cap, head, n) configuration) that are executed on the real queue.Queue together with seeded random/adversarial histories (incl. buffers beyond 256 elements); every recorded call and observation (Len, IsEmpty, Front, Peek at all offsets, Each with early stop, Slice) is validated by TLC against the Deque specification step by step.',
   ref='DESIGN.md 3 (C07)', note=TRUST, technique='TLA+ refinement model checking (TLC) + TLC-generated path replay + trace validation against the abstract spec'),
}
