HOOKS = dict(
    guard='verif (Go build tag; the guarded files live in /verif/harness/overlay and are injected with `go build -overlay`, nothing is committed to /repo for hooks)',
    enable='go build -tags verif -overlay <generated overlay.json> ./cmd/mdsverif  (done by bin/check on every run, from /repo\'s working tree)',
    baseline_off_cmd='cd /repo && GOFLAGS=-mod=mod GOPROXY=off GOSUMDB=off GOTOOLCHAIN=local go test -json -vet=off -count=1 -timeout 25m ./...',
    source_commits=[],
    add_only=True,
)
ENGINES = [dict(name='tlc-trace', path='/verif/bin/check',
                serves_properties=[],
                kind_free_text='TLA+ specifications in /verif/specs checked by TLC (exhaustive model checking of abstract and implementation-shaped specs, test generation from the state graph, trace validation of histories recorded from the real Go code by /verif/harness)')]
NOTES = 'See DESIGN.md. Exit codes of every check: 0 held / 1 VIOLATION (confirmed on the real code) / 2 machinery failure (no verdict).'
NA = {}
TRUST = 'Trusted: TLC; the TLA+ modules as transcription of the property text; the Go driver\'s logging (cross-checked by corruption self-tests). Exhaustive within the stated bounds of the configs, seeded sampling beyond.'
CHECKS = {
 'C07': dict(
   text='TLC checks exhaustively that the ring-buffer design (RingDeque: vs/head/n, rotate-then-grow, one action per method, transcribed from queue.go) refines the abstract Deque for all capacities up to the bound; the explored state graph is emitted as operation paths (one per generated transition, covering every (cap, head, n) configuration) that are executed on the real queue.Queue together with seeded random/adversarial histories (incl. buffers beyond 256 elements); every recorded call and observation (Len, IsEmpty, Front, Peek at all offsets, Each with early stop, Slice) is validated by TLC against the Deque specification step by step.',
   ref='DESIGN.md 3 (C07)', note=TRUST, technique='TLA+ refinement model checking (TLC) + TLC-generated path replay + trace validation against the abstract spec'),
 'C01': dict(
   text='TLC checks exhaustively, for every history of Add/Replace/Remove/Clear over a small key universe and New from every subset, for beta in {0,250,500,750,1000}, that the scapegoat design (Scapegoat.tla: insert with depth limit and goat search, DSW rebuild by vine rotations, popMinRight removal, shrink rebuild; transcribed from stree.go/node.go) refines the abstract SortedSet (contents with representatives, every boolean result). The state graph is emitted as one operation path per generated transition and executed on the real stree.Tree together with seeded adversarial histories (sorted/reverse/zig-zag/drain/two-child removals/bulk New with duplicates/clone forks, comparators of arbitrary magnitude, reversed order); every call and every observation (Len, IsEmpty, Get, Min, Max, Inorder and InorderAfter with early stop) is validated by TLC against SortedSet step by step.',
   ref='DESIGN.md 3 (C01)', note=TRUST, technique='TLA+ refinement model checking (TLC) + TLC-generated path replay + trace validation against the abstract spec'),
 'C02': dict(
   text='TLC checks the exact depth bound (2000/(1000+beta))^(height-1) <= P (big-integer arithmetic in BigNat.tla, no floating point) as an invariant of the Scapegoat model in every reachable state, and that Extract yields minimum height; on the real tree the height measured through Root/Left/Right cursors after EVERY operation, the comparator calls of every Get, and the height after New are validated by TLC (BalanceTrace) against the same bound with P tracked as a history variable, over TLC-generated paths plus adversarial insertion orders up to 600 keys and beta up to 999.',
   ref='DESIGN.md 3 (C02)', note=TRUST, technique='TLA+ invariant model checking (TLC) + trace validation of measured heights against an exact big-integer bound'),
 'C03': dict(
   text='TLC checks on EVERY binary-tree shape up to the node bound and every node that the walk-up successor/predecessor algorithm of cursor.go equals the abstract move defined by key order, and the structural laws (Left smaller/Right larger, Up inverts Left/Right, Next/Prev mutually inverse, invalid cursors are inert). Every (shape, start, move) is replayed on a real tree of exactly that shape, plus seeded random move/clone sequences over two cursors on skewed trees; every Valid/Key/Has*/Inorder observation of both cursors is validated by TLC (TreeCursorTrace).',
   ref='DESIGN.md 3 (C03)', note=TRUST, technique='TLA+ model checking over all tree shapes (TLC) + per-transition replay + trace validation'),
 'C04': dict(
   text='TLC explores the OrderedMap specification (map + iterators with staleness) exhaustively over a small universe, checking iterator sanity, First..Next*/Last..Prev* enumeration and Seek/Prev laws, and emits one path per transition; these and seeded histories (delete-while-iterating, sweeps, zero Map, copies sharing contents, natural/reversed/difference comparators, fill-then-drain) run on the real omap.Map and every result and observation (Len, Keys, String, GetOK/Get, iterator validity/key/value) is validated by TLC (OrderedMapTrace).',
   ref='DESIGN.md 3 (C04)', note=TRUST, technique='TLA+ model checking (TLC) + TLC-generated path replay + trace validation'),
 'C05': dict(
   text='TLC checks that the corrected heap design (Heap.tla, Known={}) satisfies min-at-front, heap order and conservation for all histories within the bounds, and REFUTES the as-is design (Known={F1}, {F2}, {F1,F2}: the code as written) with counterexamples; paths from the as-is state graph and seeded histories run on the real heapq.Queue and are validated by TLC against the abstract PriorityBag (Front/Pop minimal, Remove(i)=Peek(i), conservation, Sort = sorted permutation). Rejections are attributed: only behaviour that the as-is model HeapTrace reproduces array-for-array is reported as KNOWN-FINDING (F1, F2); any other deviation is a VIOLATION.',
   ref='DESIGN.md 3 (C05), 4', note=TRUST + ' Known findings F1, F2 are open (not repairable without editing TestHeap).', technique='TLA+ model checking incl. refutation of the as-is design (TLC) + trace validation against the abstract spec + as-is-model attribution of known findings'),
 'C06': dict(
   text='TLC checks position tracking (PosOK: last reported position = offset for every tracked element; Add returns the offset) on both the corrected and the as-is heap model for all histories over distinct elements within the bounds; TLC-generated paths and seeded histories (incl. Remove at a reported position) run on the real queue with an update callback, and the callback log of every call is validated by TLC (PosTrace).',
   ref='DESIGN.md 3 (C06)', note=TRUST, technique='TLA+ invariant model checking (TLC) + TLC-generated path replay + trace validation of callback logs'),
}
